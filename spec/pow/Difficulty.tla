----------------------------- MODULE Difficulty -----------------------------
(* Proof-of-work state of a Sia chain (property C13), stated relationally
   over BigNat.

   A network is a record
     [oak, asic, allow, final : fork heights, interval : seconds, factor : nonce factor]
   a proof-of-work state is a record
     [height,                      height of the tip
      T, D                         childTarget and difficulty (required work of the next block)
      W, depth                     totalWork and its legacy inverse
      oakW, oakT                   the decayed work estimate and its legacy inverse
      pt                           PoWTarget(): what the ID of the next header is compared with
      prev                         the timestamps of the last <= 11 blocks, newest first (instants, see below)
      tip ]                        ID of the tip
   and a header is [parent, ts, nonce, id].

   The specification does not say how the next difficulty is computed; it says
   what every implementation of the retargeting must satisfy (the clauses of
   the property).  Consequently TLC cannot enumerate successor targets: the
   clauses are evaluated on values recorded from the real code
   (DifficultyTrace), while the timestamp layer -- which timestamps a chain
   may carry -- is enumerable and is explored by DifficultySkel.            *)
EXTENDS BigNat, FiniteSets

MaxT   == Sub(Pow2(256), One)          \* 2^256 - 1
Two255 == Pow2(255)
\* Legacy corner of the target representation: every value of bit length >= 256
\* is stored as 2^256-1.  Both clamp bounds carry it.
Sat(x) == IF Le(Two255, x) THEN MaxT ELSE x
\* w = floor(MaxT / t), by post-condition
FloorInv(w, t) == /\ t # Zero
                  /\ LET p == Mul(w, t) IN Le(p, MaxT) /\ Lt(MaxT, Add(p, t))

\* ---- environment --------------------------------------------------------
\* Fork heights are naturals and every era predicate below compares the CHILD height with them (child < H,
\* child <= H, child = H): a fork height of 0 means "from genesis".  Nothing orders the legacy forks among
\* themselves; the final cut cannot precede the height at which v2 is allowed.
WellFormedNet(n) == /\ n.oak >= 0 /\ n.asic >= 0 /\ n.allow >= 0 /\ n.allow <= n.final
                    /\ n.interval >= 1 /\ n.factor >= 1 /\ n.factor < Base

\* ---- eras: which clamp clause governs the step that creates block `child' ---
Era(n, child) ==
  IF child < n.allow
  THEN IF child <= n.oak THEN (IF child % 500 = 0 THEN "ClampPre" ELSE "NoAdjust")
       ELSE IF child = n.asic THEN "AsicReset" ELSE "ClampOak"
  ELSE IF child < n.final THEN "ClampV2" ELSE "ClampFinal"
EraRank(e) == CASE e \in {"NoAdjust", "ClampPre"} -> 1
                [] e \in {"ClampOak", "AsicReset"} -> 2
                [] e = "ClampV2" -> 3
                [] e = "ClampFinal" -> 4
Factor(n, child) == IF child < n.asic THEN 1 ELSE n.factor

\* ---- clamp clauses (s: state before, s2: state after the header) ----------
NoAdjust(s, s2)  == s2.T = s.T
\* floor(T*d/n) <= T' <= floor(T*n/d), with saturation
ClampT(s, s2, n, d) == /\ Le(Sat(DivSmall(MulSmall(s.T, d), n)), s2.T)
                       /\ Le(s2.T, Sat(DivSmall(MulSmall(s.T, n), d)))
ClampPre(s, s2)  == ClampT(s, s2, 25, 10)
ClampOak(s, s2)  == ClampT(s, s2, 1004, 1000)
AsicReset(s, s2) == s2.T # Zero
ClampV2(s, s2) ==
  LET a == DivSmall(s.D, 250) IN
  /\ Le(Sub(s.D, a), s2.D) /\ Le(s2.D, Add(s.D, a)) /\ s2.D # Zero
ClampFinal(s, s2) ==
  LET a0 == DivSmall(s.D, 250)
      a  == IF a0 = Zero THEN One ELSE a0
      lo == IF Lt(a, s.D) THEN Sub(s.D, a) ELSE One
  IN /\ Le(lo, s2.D) /\ Le(s2.D, Add(s.D, a)) /\ Le(One, s2.D)
Clamp(n, s, s2) ==
  LET e == Era(n, s.height + 1) IN
  CASE e = "NoAdjust"   -> NoAdjust(s, s2)
    [] e = "ClampPre"   -> ClampPre(s, s2)
    [] e = "ClampOak"   -> ClampOak(s, s2)
    [] e = "AsicReset"  -> AsicReset(s, s2)
    [] e = "ClampV2"    -> ClampV2(s, s2)
    [] e = "ClampFinal" -> ClampFinal(s, s2)
\* the required work never becomes zero (the legacy target exists until the final cut)
NonZero(n, s2) == s2.D # Zero /\ (s2.height < n.final => s2.T # Zero)

\* ---- inverse relations (state predicates) -----------------------------------
\* (the genesis state carries the network's initial target, whatever the era: the difficulty is derived from it)
InvDifficulty(n, s) == IF s.height >= n.final THEN s.T = Zero
                       ELSE IF s.height < n.allow \/ s.height = 0 THEN FloorInv(s.D, s.T)
                       ELSE FloorInv(s.T, s.D)
InvTotalWork(n, s)  == IF s.height < n.allow THEN FloorInv(s.W, s.depth)
                       ELSE IF s.height < n.final THEN FloorInv(s.depth, s.W) ELSE s.depth = Zero
InvOakWork(n, s)    == IF s.height < n.allow THEN FloorInv(s.oakW, s.oakT)
                       ELSE IF s.height < n.final THEN FloorInv(s.oakT, s.oakW) ELSE s.oakT = Zero
InvPoWTarget(n, s)  == IF s.height + 1 < n.final THEN s.pt = s.T ELSE FloorInv(s.pt, s.D)
Inverse(n, s) == InvDifficulty(n, s) /\ InvTotalWork(n, s) /\ InvOakWork(n, s) /\ InvPoWTarget(n, s)

\* ---- cumulative work ---------------------------------------------------------
WorkMono(n, s, s2) == Le(s.W, s2.W) /\ (s2.height >= n.allow => Lt(s.W, s2.W))
\* "cumulative": once work is kept as an integer (v2 rules), the work of a chain is the sum of the work
\* required of its blocks -- the block that is applied was required to carry s.D.  (Before v2 the chain
\* accumulates in the target domain, where only the inverse relation and monotonicity are demanded.)
WorkSum(n, s, s2) == s2.height >= n.allow => s2.W = Add(s.W, s.D)

\* ---- limb boundaries of a 256-bit value kept in four 64-bit limbs --------------------
\* (not a clause: vocabulary for the magnitude lattice of DifficultyMag, which promises scenarios in which a
\*  carry / borrow crosses a given limb boundary of the implementation's representation)
\* x mod 2^k
Low(x, k) == LET q == k \div 15  r == k % 15 IN
             Norm([i \in 1..(q + 1) |-> IF i <= q THEN Limb(x, i) ELSE Limb(x, q + 1) % (2 ^ r)])
\* schoolbook x + y carries out of bit k;  x - y borrows across bit k
CarryAt(x, y, k)  == Le(Pow2(k), Add(Low(x, k), Low(y, k)))
BorrowAt(x, y, k) == Lt(Low(x, k), Low(y, k))

\* ---- instants ------------------------------------------------------------------
\* A timestamp is an INSTANT <<s, ns>>: s whole seconds since the genesis timestamp and 0 <= ns < 10^9
\* nanoseconds (the resolution of the implementation's time type).  A header is ENCODED, and hashed into its ID,
\* with the whole second of its instant only (Sec): that second is what the header carries as far as consensus is
\* concerned.  A header stamped locally may hold any instant in memory, in any representation (time zone,
\* monotonic clock reading): the verdict on a header and the state after it are functions of the state before and
\* of the ENCODED header -- the sub-second part and the representation are inputs that must make no difference,
\* whichever entry point (header or full block) is used.  The window therefore holds whole seconds; the median of
\* an even count may still lie off the second (the mean of two).
Giga == 1000000000
IsInstant(a) == Len(a) = 2 /\ a[2] >= 0 /\ a[2] < Giga
ILe(a, b) == a[1] < b[1] \/ (a[1] = b[1] /\ a[2] <= b[2])
ILt(a, b) == a[1] < b[1] \/ (a[1] = b[1] /\ a[2] < b[2])
IPlus(a, b) == LET n == a[2] + b[2] IN <<a[1] + b[1] + n \div Giga, n % Giga>>
IPlusSec(a, k) == <<a[1] + k, a[2]>>
\* floor(a / 2) at the resolution of one nanosecond
IHalf(a) == LET n == (a[1] % 2) * Giga + a[2] IN <<a[1] \div 2, n \div 2>>
\* the instant just before a
IPred(a) == IF a[2] > 0 THEN <<a[1], a[2] - 1>> ELSE <<a[1] - 1, Giga - 1>>
\* what the encoding of a header keeps of its timestamp
Sec(a) == <<a[1], 0>>

\* ---- header rule ---------------------------------------------------------------
Range(q) == {q[i] : i \in DOMAIN q}
\* k-th smallest element of a non-empty sequence of instants (order statistic)
Kth(q, k) == CHOOSE x \in Range(q) :
               /\ Cardinality({i \in DOMAIN q : ILt(q[i], x)}) < k
               /\ Cardinality({i \in DOMAIN q : ILe(q[i], x)}) >= k
\* the median of the window; the median of an even number of instants (chains shorter than eleven blocks) is the
\* mean of the middle two at the resolution of one nanosecond (half a nanosecond is not an instant)
Median(q) == LET m == Len(q) IN
             IF m % 2 = 1 THEN Kth(q, (m + 1) \div 2) ELSE IHalf(IPlus(Kth(q, m \div 2), Kth(q, m \div 2 + 1)))
NotBeforeMedian(ts, q) == ILe(Median(q), Sec(ts))
Window(q) == IF Len(q) > 11 THEN SubSeq(q, 1, 11) ELSE q
\* (med: the median of s.prev, passed in so that several headers can be judged against one state)
HeaderOKm(n, s, hd, med) ==
  /\ hd.parent = s.tip
  /\ ILe(med, Sec(hd.ts))
  /\ ModSmall(hd.nonce, Factor(n, s.height + 1)) = 0
  /\ Le(hd.id, s.pt)
HeaderOK(n, s, hd) == HeaderOKm(n, s, hd, Median(s.prev))

\* ---- fork choice ----------------------------------------------------------------
Heavier(s, t) == Lt(Add(t.W, DivSmall(t.D, 5)), s.W)
HeavierAsym(s, t) == ~(Heavier(s, t) /\ Heavier(t, s))

\* ---- one header application -------------------------------------------------
\* s2 is an admissible successor of s under header hd.  (DifficultyTrace evaluates the
\* same conjuncts one by one, so that a rejection names the clause that failed.)
ApplyHeader(n, s, hd, s2) ==
  /\ s2.height = s.height + 1
  /\ s2.tip = hd.id
  /\ s2.prev = Window(<<Sec(hd.ts)>> \o s.prev)
  /\ Clamp(n, s, s2) /\ NonZero(n, s2)
  /\ Inverse(n, s2)
  /\ WorkMono(n, s, s2) /\ WorkSum(n, s, s2)
=============================================================================
