--------------------------- MODULE DifficultyMag ---------------------------
(* Magnitude lattice for C13 (direction A: TLC chooses the scenario).

   DifficultySkel explores which TIMESTAMPS a chain may carry; its chains start at
   genesis with whatever initial target the network has.  This module explores at
   which MAGNITUDES the proof-of-work state may stand: the implementation keeps
   work in four 64-bit limbs, the specification in exact naturals (BigNat), and
   the clauses of Difficulty.tla must hold wherever the values lie.  A scenario is

     start   a network and the height of the state the chain starts from: one
             start per era and per era boundary (pre-Oak plain / at a retarget,
             into Oak, across the Oak fix, into and after the ASIC reset, into v2,
             v2, into the final cut, after it, and from the legacy rules straight
             into the final cut)
     D       the required work of the next block: k*2^(64b) minus / plus a little
             (so that D + D/250, resp. D - D/250 -- the bounds of the v2 clamps --
             crosses the boundary of limb b), or half / double / four times
             2^(64b), or today's mainnet magnitude
     W       the cumulative work: M - j*D + (D mod 2^(64wb))/2 with the mark M =
             2^(64wb) (or 64 times that where j*D does not fit below it), so that
             adding the work of the j-th block crosses M and carries across the
             boundary of limb wb (for wb > b the carry ripples through limbs that
             are all ones), or 1000*D
     push    the decayed work estimate: 800*D (the retargeting wants to go far up:
             the upper clamp bound binds), 50*D (far down), 200*D (in balance)
     regime  the timestamp choice of DifficultySkel's table used for every header
     frac    the sub-second class of the chain's instants (DifficultySkel: whole
             seconds, +1 ns, +999 999 999 ns, alternating), spread over the
             other dimensions

   TLC computes D, W and the work estimate exactly, checks that the lattice keeps
   its promises (the carries and borrows really occur for these values; nothing
   overflows 256 bits by construction) and emits each scenario.  The harness
   builds the state (deriving the fields of the other representation by the
   floored inverse, which DifficultyTrace re-checks on the reset line), applies
   ChainLen headers to it on the real code and DifficultyTrace validates every
   step.                                                                      *)
EXTENDS Difficulty, TLC, Json
CONSTANTS StartIds, Bounds, DClasses, Ks, WSteps, Pushes, Regimes, Intervals, ChainLen

MagNets == <<
  [oak |-> 20,  fix |-> 25,  asic |-> 40,  allow |-> 60,  final |-> 80],
  [oak |-> 600, fix |-> 610, asic |-> 620, allow |-> 640, final |-> 660],
  [oak |-> 2,   fix |-> 2,   asic |-> 3,   allow |-> 8,   final |-> 8],
  [oak |-> 0,   fix |-> 0,   asic |-> 0,   allow |-> 0,   final |-> 0],
  [oak |-> 0,   fix |-> 0,   asic |-> 0,   allow |-> 0,   final |-> 8] >>
Starts == <<
  [net |-> 1, h |-> 5],    \* 1  pre-Oak, no adjustment
  [net |-> 1, h |-> 17],   \* 2  pre-Oak -> Oak
  [net |-> 1, h |-> 23],   \* 3  Oak, across the fix height
  [net |-> 1, h |-> 36],   \* 4  Oak -> ASIC reset -> ASIC
  [net |-> 1, h |-> 45],   \* 5  ASIC
  [net |-> 1, h |-> 56],   \* 6  ASIC -> v2 allowed
  [net |-> 1, h |-> 65],   \* 7  v2, across the require height
  [net |-> 1, h |-> 76],   \* 8  v2 -> final cut
  [net |-> 1, h |-> 90],   \* 9  after the final cut
  [net |-> 2, h |-> 497],  \* 10 the pre-Oak retarget at height 500
  [net |-> 3, h |-> 4],    \* 11 legacy rules -> final cut without a v2 interlude
  [net |-> 4, h |-> 3],    \* 12 every fork active from genesis (fork heights 0)
  [net |-> 5, h |-> 4] >>  \* 13 v2 allowed from genesis -> final cut
BelowClasses == {"belowS", "belowL"}
AboveClasses == {"aboveS", "aboveL"}
EdgeClasses == BelowClasses \cup AboveClasses

VARIABLES sc, stage

Bd(b) == Pow2(64 * b)
DOf(b, dc, k) ==
  LET kb == MulSmall(Bd(b), k) IN
  CASE dc = "belowS" -> Sub(kb, FromInt(1000 + 37 * k))
    [] dc = "belowL" -> Sub(kb, DivSmall(kb, 300))
    [] dc = "aboveS" -> Add(kb, FromInt(1000 + 37 * k))
    [] dc = "aboveL" -> Add(kb, DivSmall(kb, 300))
    [] dc = "half"   -> Add(Pow2(64 * b - 1), Add(Pow2(64 * b - 4), FromInt(12345)))
    [] dc = "double" -> Add(Pow2(64 * b + 1), Add(Pow2(64 * b - 2), FromInt(12345)))
    [] dc = "quad"   -> Add(Pow2(64 * b + 2), Add(Pow2(64 * b - 1), FromInt(12345)))
    [] dc = "main"   -> Add(Pow2(75), Add(Pow2(71), FromInt(54321)))
\* the mark the cumulative work crosses: 2^(64wb) itself where j blocks fit below it, else 64 times that
WMark(D, wb, j) == IF Le(MulSmall(D, j), Bd(wb)) THEN Bd(wb) ELSE MulSmall(Bd(wb), 64)
WOf(D, wb, j) == IF wb = 0 THEN Add(MulSmall(D, 1000), FromInt(777))
                 ELSE Add(Sub(WMark(D, wb, j), MulSmall(D, j)), DivSmall(Low(D, 64 * wb), 2))
OakOf(D, p) == CASE p = "up" -> MulSmall(D, 800) [] p = "down" -> MulSmall(D, 50) [] p = "hold" -> MulSmall(D, 200)

PushRank(p) == CASE p = "up" -> 0 [] p = "down" -> 1 [] p = "hold" -> 2
KMin == CHOOSE k \in Ks : \A k2 \in Ks : k <= k2
JMin == CHOOSE j \in WSteps : \A j2 \in WSteps : j <= j2
\* one representative of every scenario (parameters that do not matter are pinned)
Canonical(b, dc, k, wb, j) ==
  /\ (dc \notin EdgeClasses => k = KMin)
  /\ (dc = "main" => b = 1 /\ wb # 1)
  /\ (wb = 0 => j = JMin)
  /\ (wb = 0 \/ wb >= b)

\* stage 0: the root; stage 1: the magnitudes are chosen (and the promises of the lattice are checked);
\* stage 2: start, interval, push and timestamp regime are chosen (and the scenario is emitted)
Init == stage = 0 /\ sc = [b |-> 0]
Next ==
  \/ /\ stage = 0 /\ stage' = 1
     /\ \E b \in Bounds, dc \in DClasses, k \in Ks, wb \in 0..3, j \in WSteps :
          /\ Canonical(b, dc, k, wb, j)
          /\ LET D == DOf(b, dc, k) IN
             sc' = [b |-> b, dc |-> dc, k |-> k, wb |-> wb, j |-> j, D |-> D, W |-> WOf(D, wb, j)]
  \/ /\ stage = 1 /\ stage' = 2
     /\ \E s \in StartIds, iv \in Intervals, p \in Pushes, r \in Regimes :
          sc' = [frac |-> (s + r + PushRank(p) + sc.b + sc.wb + sc.j) % 4, start |-> s, h |-> Starts[s].h, net |-> MagNets[Starts[s].net], interval |-> iv,
                 push |-> p, regime |-> r, steps |-> ChainLen, oakW |-> OakOf(sc.D, p), oakTime |-> 200 * iv] @@ sc
Spec == Init /\ [][Next]_<<sc, stage>>

\* ---- the promises of the lattice (a failure here is a specification bug) ------------
WellFormed == /\ stage = 1 => IsNat(sc.D) /\ IsNat(sc.W) /\ sc.D # Zero
              /\ stage = 2 => WellFormedNet([oak |-> sc.net.oak, asic |-> sc.net.asic, allow |-> sc.net.allow,
                                             final |-> sc.net.final, interval |-> sc.interval, factor |-> 1])
\* the bounds of the v2 clamps cross the limb boundary the class names
EdgeCarry == stage = 1 => LET a == DivSmall(sc.D, 250) IN
  /\ (sc.dc \in BelowClasses => CarryAt(sc.D, a, 64 * sc.b) /\ Lt(sc.D, MulSmall(Bd(sc.b), sc.k)))
  /\ (sc.dc \in AboveClasses => BorrowAt(sc.D, a, 64 * sc.b) /\ Le(MulSmall(Bd(sc.b), sc.k), sc.D))
\* at constant required work the j-th addition is the one that carries across the mark
WorkCross == stage = 1 /\ sc.wb > 0 =>
  /\ Le(MulSmall(sc.D, sc.j), WMark(sc.D, sc.wb, sc.j))
  /\ Lt(Add(sc.W, MulSmall(sc.D, sc.j - 1)), WMark(sc.D, sc.wb, sc.j))
  /\ Le(WMark(sc.D, sc.wb, sc.j), Add(sc.W, MulSmall(sc.D, sc.j)))
  /\ CarryAt(Add(sc.W, MulSmall(sc.D, sc.j - 1)), sc.D, 64 * sc.wb)
\* nothing overflows 256 bits by construction: the final-cut retargeting multiplies the work estimate by at most
\* three block intervals in nanoseconds; further steps of +0.4% are covered by the factor 2
Headroom == stage = 2 => Lt(Mul(MulSmall(sc.oakW, 2), Mul(FromInt(3 * sc.interval), FromInt(1000000000))), Pow2(256))
\* the chains of the chosen starts visit every clamp clause (two of them keep work as integers)
EraCover == LET eras == UNION {{Era(MagNets[Starts[s].net] @@ [interval |-> 1, factor |-> 1], Starts[s].h + i) : i \in 1..ChainLen} : s \in StartIds}
            IN eras = {"NoAdjust", "ClampPre", "ClampOak", "AsicReset", "ClampV2", "ClampFinal"}
ASSUME EraCover
Emit == stage = 2 => PrintT("@@MAG " \o ToJson(sc))
=============================================================================
