--------------------------- MODULE DifficultySkel ---------------------------
(* Skeleton generator for C13 (direction A: TLC chooses the scenario).

   The enumerable layer of Difficulty.tla: which timestamps a chain may carry.
   A skeleton is a network shape (fork heights 2..12, so that a chain of
   ChainLen headers crosses every era boundary), a block interval, an
   initial-target class, and a sequence of timestamp CHOICES

     0 honest      previous + interval            4 slow     previous + 3*interval
     1 median      the smallest admissible one    5 back     previous - 1 s (if the median rule allows)
     2 median+I    median + interval              6 future   previous + 1000 h
     3 fast        previous + interval/3          7 constant previous

   of the form  b1^(pos-1) . w . b2^*  : a background regime b1, a window of Win
   free choices starting at header pos, and a background regime b2 afterwards
   (b2 = b1 unless TwoRegime).  A choice fixes the SECOND of the timestamp, which
   is all the encoded header carries; the sub-second part of the instant the
   header holds in memory is a dimension of its own, the class fr of the chain:

     0 whole seconds (what a header holds after it went over the wire)
     1 every header 1 ns after the second        2 every header 999 999 999 ns after it
     3 alternating: odd headers 999 999 999 ns, even headers 0 ns after the second

   It is an input that must make no difference: the window of the chain holds
   the seconds.  Every choice is resolved to a concrete second by the median
   rule of Difficulty.tla (NotBeforeMedian: the smallest admissible second
   where the choice itself would be too old), so each emitted step carries the
   instant, the median it was validated against, and the era of the step.  The
   harness executes the skeleton on the real code and the trace specification
   recomputes median and era from what the code recorded.                     *)
EXTENDS Difficulty, TLC, Json
CONSTANTS ShapeIds, Intervals, TargetIds, ChainLen, Win, TwoRegime, Spread, Fracs, FracSpread

\* oakTime: the oak time (seconds) installed by the ASIC reset; the small values let the decayed time
\* reach zero within the chain (the retargeting divides by it)
Shapes == <<
  [oak |-> 2, fix |-> 2,  asic |-> 3, allow |-> 4,  final |-> 6,  oakTime |-> 10000],
  [oak |-> 4, fix |-> 5,  asic |-> 6, allow |-> 9,  final |-> 13, oakTime |-> 10000],
  [oak |-> 3, fix |-> 8,  asic |-> 5, allow |-> 7,  final |-> 10, oakTime |-> 2],
  [oak |-> 2, fix |-> 3,  asic |-> 4, allow |-> 6,  final |-> 12, oakTime |-> 10000],
  [oak |-> 6, fix |-> 6,  asic |-> 8, allow |-> 10, final |-> 12, oakTime |-> 600],
  [oak |-> 2, fix |-> 12, asic |-> 3, allow |-> 11, final |-> 12, oakTime |-> 3],
  \* forks active from genesis (height 0) or from the first block (height 1): each fork in turn, and all together
  [oak |-> 0, fix |-> 2,  asic |-> 3, allow |-> 5,  final |-> 8,  oakTime |-> 10000],   \* 7  Oak from genesis
  [oak |-> 2, fix |-> 0,  asic |-> 4, allow |-> 6,  final |-> 9,  oakTime |-> 10000],   \* 8  Oak fix from genesis
  [oak |-> 2, fix |-> 3,  asic |-> 0, allow |-> 5,  final |-> 8,  oakTime |-> 10000],   \* 9  ASIC from genesis
  [oak |-> 2, fix |-> 3,  asic |-> 4, allow |-> 0,  final |-> 6,  oakTime |-> 10000],   \* 10 v2 allowed from genesis
  [oak |-> 2, fix |-> 3,  asic |-> 4, allow |-> 0,  final |-> 0,  oakTime |-> 10000],   \* 11 final cut from genesis
  [oak |-> 0, fix |-> 0,  asic |-> 0, allow |-> 0,  final |-> 0,  oakTime |-> 10000],   \* 12 everything from genesis
  [oak |-> 1, fix |-> 3,  asic |-> 4, allow |-> 6,  final |-> 9,  oakTime |-> 10000],   \* 13 Oak at 1
  [oak |-> 0, fix |-> 1,  asic |-> 1, allow |-> 3,  final |-> 6,  oakTime |-> 600],     \* 14 fix and ASIC reset at 1
  [oak |-> 0, fix |-> 0,  asic |-> 0, allow |-> 1,  final |-> 4,  oakTime |-> 10000],   \* 15 v2 allowed at 1
  [oak |-> 0, fix |-> 0,  asic |-> 0, allow |-> 0,  final |-> 1,  oakTime |-> 10000],   \* 16 final cut at 1
  [oak |-> 1, fix |-> 1,  asic |-> 1, allow |-> 1,  final |-> 1,  oakTime |-> 10000],   \* 17 everything at 1
  [oak |-> 0, fix |-> 0,  asic |-> 0, allow |-> 4,  final |-> 7,  oakTime |-> 10000] >> \* 18 legacy forks from genesis, v2 later
FullShapes == 1..6   \* the shapes whose chains pass through every era
Choices == 0..7
FarFuture == 3600000

VARIABLES shape, interval, tgt, b1, b2, pos, fr, h, prev, hist
vars == <<shape, interval, tgt, b1, b2, pos, fr, h, prev, hist>>

\* the sub-second part (nanoseconds) of header i of a chain of class f
FracNs(f, i) == CASE f = 0 -> 0
                  [] f = 1 -> 1
                  [] f = 2 -> Giga - 1
                  [] f = 3 -> IF i % 2 = 1 THEN Giga - 1 ELSE 0

Net == [oak |-> Shapes[shape].oak, asic |-> Shapes[shape].asic, allow |-> Shapes[shape].allow,
        final |-> Shapes[shape].final, interval |-> interval, factor |-> 1]

\* (the target class does not influence the timestamp layer: it is chosen with the last header.  Spread = 1: every
\*  chain with every class; Spread = n thins the product: a chain takes the classes t with t + pos + b1 + b2 = 0 mod n,
\*  so that every class still meets every shape, interval and free choice)
Init == /\ shape \in ShapeIds /\ interval \in Intervals /\ tgt = 0
        /\ b1 \in Choices /\ pos \in 1..ChainLen
        /\ b2 \in (IF TwoRegime THEN Choices ELSE {b1})
        \* (FracSpread = 1: every chain in every sub-second class; FracSpread = n thins the product so that every
        \*  class still meets every shape, interval, background and free choice)
        /\ fr \in {f \in Fracs : (f + shape + interval + pos + b1) % FracSpread = 0}
        /\ h = 0 /\ prev = << <<0, 0>> >> /\ hist = <<>>

\* the smallest second that is not before the instant m
MinAdm(m) == IF m[2] = 0 THEN m[1] ELSE m[1] + 1
\* the instant a choice stands for (the choice fixes the second, f is the sub-second part held in memory); the
\* second is never before the median
Resolve(c, q, I, f) ==
  LET mc == MinAdm(Median(q))  p == q[1][1]
      cand == CASE c = 0 -> p + I
                [] c = 1 -> mc
                [] c = 2 -> mc + I
                [] c = 3 -> p + I \div 3
                [] c = 4 -> p + 3 * I
                [] c = 5 -> p - 1
                [] c = 6 -> p + FarFuture
                [] c = 7 -> p
  IN <<IF cand < mc THEN mc ELSE cand, f>>

Step(c) == LET ts == Resolve(c, prev, interval, FracNs(fr, h + 1))  med == Median(prev) IN
  /\ h' = h + 1
  /\ prev' = Window(<<Sec(ts)>> \o prev)
  /\ hist' = Append(hist, <<c, ts[1], ts[2], med[1], med[2], EraRank(Era(Net, h + 1))>>)
  /\ tgt' \in (IF h + 1 = ChainLen THEN {t \in TargetIds : (t + pos + b1 + b2) % Spread = 0} ELSE {0})
  /\ UNCHANGED <<shape, interval, b1, b2, pos, fr>>

Next == /\ h < ChainLen
        /\ LET i == h + 1 IN
           IF i < pos THEN Step(b1)
           ELSE IF i < pos + Win THEN \E c \in Choices : Step(c)
           ELSE Step(b2)
Spec == Init /\ [][Next]_vars

\* ---- sanity of the lattice (a failure here is a specification bug) --------------
WellFormed == WellFormedNet(Net)
\* every step of the history respected the median rule and carries the sub-second part of its class, eras only
\* advance, timestamps stay small
TimeRule == \A i \in DOMAIN hist : /\ ILe(<<hist[i][4], hist[i][5]>>, Sec(<<hist[i][2], hist[i][3]>>))
                                    /\ hist[i][3] = FracNs(fr, i) /\ IsInstant(<<hist[i][2], hist[i][3]>>)
                                    /\ hist[i][2] >= 0 /\ hist[i][2] < 1073741824
EraOrder == \A i \in DOMAIN hist : i > 1 => hist[i][6] >= hist[i - 1][6]
\* a complete chain has been through every era and through the scheduled reset
Crossing == h = ChainLen => /\ Net.asic <= ChainLen /\ Net.final < ChainLen
                            /\ (shape \in FullShapes => {hist[i][6] : i \in DOMAIN hist} = 1..4)
                            /\ (Net.final <= 1 => {hist[i][6] : i \in DOMAIN hist} = {4})
\* emission
Emit == h = ChainLen =>
  PrintT("@@SKEL " \o ToJson([shape |-> shape, oak |-> Shapes[shape].oak, fix |-> Shapes[shape].fix,
                              asic |-> Shapes[shape].asic, allow |-> Shapes[shape].allow, final |-> Shapes[shape].final,
                              oakTime |-> Shapes[shape].oakTime, interval |-> interval, tgt |-> tgt, b1 |-> b1, pos |-> pos, b2 |-> b2, fr |-> fr, steps |-> hist]))
=============================================================================
