----------------------------- MODULE Membership -----------------------------
(* Property C04: accumulator membership is sound -- only genuine, live elements
   are accepted.

   On top of the accumulator model (spec/acc/Accumulator.tla: naive forest as the
   oracle, transcription of consensus/merkle.go as the mechanism, symbolic and
   therefore injective hashes) this module

     * drives histories      empty --Build--> naive forest of n0 leaves
                                   --Block(U,k)--> applied   (leaves of U spent and/or revised, k created)
                                   --Revert-->     reverted  (the block's elements become elements of a
                                                              reverted branch: "ghosts", kept with the
                                                              proofs they had on that branch)
                                   --Block'-->     a competing block on the parent (other leaf updated,
                                                   fresh elements created at the SAME leaf positions)
       for every n0 <= MaxInit, every U, every k <= MaxAdd  (all forests of <= MaxLeaves leaves),

     * defines for every state the probe family  Probes : for every element e known
       to the history (every leaf, live or spent; every ghost; a never-created
       element) and every mutation m of the catalogue below, the element e' = m(e)
       as it would be presented to the accumulator (leaf pre-image, leaf index,
       proof),

     * and states the property as the invariant

            MemberSound ==  \A p \in Probes :  Member(acc, p) <=> Exact(p)

       Exact(p): p is, field for field, a leaf of the applied history (same
       element, same version of its body, same spent flag, same leaf index) and
       carries exactly that leaf's own proof (the oracle NaivePath).  "Accepted as
       unspent" is Member of a probe presented with spent = FALSE.

   The leaf pre-image of a probe is  L<id>v<ver>[f<k>]@<idx><s|u> : element <id>,
   body version <ver>, optionally with body field number k altered (a body no
   version ever had), leaf index, spent flag.  "X" is a hash that is no node and
   no leaf of any forest.

   Mutation catalogue (descriptor  <src><base>:<mut>:<arg>:<expected 0/1>):
     src L<i>  leaf i of the current forest as the history left it (live or spent)
       none            the element itself with its own proof
       flip            spent flag flipped
       reinterp:0|1    the element of another kind with the same pre-image bytes (as is | presented unspent)
       field:k         body field k altered                      (k in 1..NF)
       oldver / oldveru  previous version of the body (as is / presented unspent)
       newver          a later version of the body that was never made
       idfresh         id replaced by an id no element ever had
       idof:j          element j's id/body/flag at i's position with i's proof
       idx:j           leaf index j (every other position, n and n+1) with i's proof
       alias:1|2       leaf index i + 2^h | i - 2^h  (h = proof length: the same turns in the proof)
       proofof:j       the proof of element j, leaf index kept
       both:j          the position AND the proof of element j
       pjunk:t pself:t proof entry t replaced by X / by the leaf's own hash
       pdrop:1|2       proof without its first | last entry
       pext:0|1+t      proof lengthened by X | by the root of the tree of height t
       pmax            proof lengthened with X beyond every representable height
       stale           own proof as it was before the latest block
       prev            the element exactly as it was before the latest block (body, flag, proof)
     src G<g>  g-th element of a reverted branch
       none | flip | cur   as it was on its branch | flag flipped | with the proof now at its position
     (parents that are not in the accumulator at all -- elements created earlier in the block under
      validation -- are the subject of InBlock.tla)
     src N0    an element that was never created
       at | last | first   at the next free position without proof | with the last leaf's proof |
                           at position 0 with that leaf's proof

   Every state prints   @@MS {"n0":..,"U":[..],"k":..,"mode":..,"ph":..,"n":..,"probes":[descriptors]}
   (and, when Full = TRUE, the concrete probes: token, index, proof terms) for the
   harness, which rebuilds the same forest on the real accumulator and asks the
   real code about every probe.                                              *)
EXTENDS Accumulator, Json

CONSTANTS NF,        \* number of symbolic body fields
          MinInit,   \* smallest initial forest (lets the harness split a tier into runs)
          Modes,     \* subset of {0, 1}: 0 = the leaves of U are spent; 1 = revised, odd ones also resolved
          Full       \* TRUE: also print the concrete probes (small configurations only)

VARIABLES nextId,    \* next unused element id (never reset by a revert)
          ghost,     \* sequence of elements of reverted branches [id, ver, idx, spent, proof]
          plan       \* [ph, n0, U, k, mode]
mvars == <<meta, acc, client, blk, undo, nextId, ghost, plan>>

-----------------------------------------------------------------------------
(* ------------------------------ probes ----------------------------------- *)
Junk == "X"
\* Membership is per kind: the pre-image of a leaf starts with the distinguisher of the element's kind, so
\* the leaves of different kinds are disjoint even where two kinds encode to the same bytes.  f = -1 is
\* the element of ANOTHER kind that has exactly the bytes of element <id> in version <ver> ("reinterp"):
\* an element no history created.
PLeaf(e) ==
  IF e.f = 0 THEN LeafHash(e.id, e.ver, e.idx, e.spent)
  ELSE IF e.f = -1 THEN "L" \o ToString(e.id) \o "v" \o ToString(e.ver) \o "r@" \o ToString(e.idx) \o (IF e.spent THEN "s" ELSE "u")
  ELSE "L" \o ToString(e.id) \o "v" \o ToString(e.ver) \o "f" \o ToString(e.f) \o "@" \o ToString(e.idx)
           \o (IF e.spent THEN "s" ELSE "u")

\* containsLeaf on a presented element
MemberE(a, e) == Member(a, PLeaf(e), e.idx, e.proof)

\* the oracle: np = naive paths of the current forest
ExactE(m, np, e) ==
  /\ e.f = 0
  /\ e.idx >= 0 /\ e.idx < Len(m)
  /\ m[e.idx + 1].id = e.id /\ m[e.idx + 1].ver = e.ver /\ m[e.idx + 1].spent = e.spent
  /\ e.proof = np[e.idx]

Pr(src, b, mut, arg, e) == [src |-> src, b |-> b, mut |-> mut, arg |-> arg, e |-> e]

RECURSIVE Pad(_, _)
Pad(p, len) == IF Len(p) >= len THEN p ELSE Pad(Append(p, Junk), len)

\* m: meta, a: accumulator, c: proofs by leaf index, g: ghosts,
\* pv: leaf index -> [ver, spent, proof] before the latest un-reverted block (empty if none)
LeafProbes(m, a, c, pv, i) ==
  LET n == a.n
      t == m[i + 1]
      P == c[i]
      h == Len(P)
      base == [id |-> t.id, ver |-> t.ver, f |-> 0, idx |-> i, spent |-> t.spent, proof |-> P]
      others == (0..(n - 1)) \ {i}
  IN {Pr("L", i, "none", 0, base), Pr("L", i, "flip", 0, [base EXCEPT !.spent = ~@]),
      Pr("L", i, "newver", 0, [base EXCEPT !.ver = @ + 1]),
      Pr("L", i, "idfresh", 0, [base EXCEPT !.id = 1000 + @]),
      Pr("L", i, "reinterp", 0, [base EXCEPT !.f = -1]), Pr("L", i, "reinterp", 1, [base EXCEPT !.f = -1, !.spent = FALSE]),
      Pr("L", i, "pext", 0, [base EXCEPT !.proof = Append(P, Junk)]),
      Pr("L", i, "pmax", 0, [base EXCEPT !.proof = Pad(P, MaxH + 1)])}
     \cup {Pr("L", i, "field", k, [base EXCEPT !.f = k]) : k \in 1..NF}
     \cup (IF t.ver > 0 THEN {Pr("L", i, "oldver", 0, [base EXCEPT !.ver = @ - 1]),
                              Pr("L", i, "oldveru", 0, [base EXCEPT !.ver = @ - 1, !.spent = FALSE])} ELSE {})
     \cup {Pr("L", i, "idof", j, [base EXCEPT !.id = m[j + 1].id, !.ver = m[j + 1].ver, !.spent = m[j + 1].spent]) : j \in others}
     \cup {Pr("L", i, "idx", j, [base EXCEPT !.idx = j]) : j \in (0..(n + 1)) \ {i}}
     \cup {Pr("L", i, "alias", 1, [base EXCEPT !.idx = i + Pow2(h)])}
     \cup (IF i - Pow2(h) >= 0 THEN {Pr("L", i, "alias", 2, [base EXCEPT !.idx = i - Pow2(h)])} ELSE {})
     \cup {Pr("L", i, "proofof", j, [base EXCEPT !.proof = c[j]]) : j \in others}
     \cup {Pr("L", i, "both", j, [base EXCEPT !.idx = j, !.proof = c[j]]) : j \in others}
     \cup {Pr("L", i, "pjunk", k, [base EXCEPT !.proof[k] = Junk]) : k \in 1..h}
     \cup {Pr("L", i, "pself", k, [base EXCEPT !.proof[k] = PLeaf(base)]) : k \in 1..h}
     \cup (IF h >= 1 THEN {Pr("L", i, "pdrop", 1, [base EXCEPT !.proof = Tail(P)]),
                           Pr("L", i, "pdrop", 2, [base EXCEPT !.proof = SubSeq(P, 1, h - 1)])} ELSE {})
     \cup {Pr("L", i, "pext", 1 + k, [base EXCEPT !.proof = Append(P, a.trees[k])]) : k \in {x \in 0..MaxH : HasTree(n, x)}}
     \cup (IF i \in DOMAIN pv /\ pv[i].proof # P
           THEN {Pr("L", i, "stale", 0, [base EXCEPT !.proof = pv[i].proof])} ELSE {})
     \cup (IF i \in DOMAIN pv /\ (pv[i].proof # P \/ pv[i].ver # t.ver \/ pv[i].spent # t.spent)
           THEN {Pr("L", i, "prev", 0, [base EXCEPT !.ver = pv[i].ver, !.spent = pv[i].spent, !.proof = pv[i].proof])} ELSE {})

GhostProbes(a, c, g, k) ==
  LET e == [id |-> g[k].id, ver |-> g[k].ver, f |-> 0, idx |-> g[k].idx, spent |-> g[k].spent, proof |-> g[k].proof]
  IN {Pr("G", k, "none", 0, e), Pr("G", k, "flip", 0, [e EXCEPT !.spent = ~@])}
     \cup (IF e.idx < a.n THEN {Pr("G", k, "cur", 0, [e EXCEPT !.proof = c[e.idx]])} ELSE {})

NeverProbes(a, c) ==
  LET e == [id |-> 2000, ver |-> 0, f |-> 0, idx |-> a.n, spent |-> FALSE, proof |-> <<>>]
  IN {Pr("N", 0, "at", 0, e)}
     \cup (IF a.n > 0 THEN {Pr("N", 0, "last", 0, [e EXCEPT !.proof = c[a.n - 1]]),
                            Pr("N", 0, "first", 0, [e EXCEPT !.idx = 0, !.proof = c[0]])} ELSE {})

ProbesOf(m, a, c, g, pv) ==
  UNION {LeafProbes(m, a, c, pv, i) : i \in 0..(a.n - 1)}
  \cup UNION {GhostProbes(a, c, g, k) : k \in 1..Len(g)}
  \cup NeverProbes(a, c)

\* what the holder of an element knew before the latest un-reverted block
PrevView ==
  IF undo = <<>> THEN [x \in {} |-> 0]
  ELSE LET u == Head(undo) IN
       [i \in 0..(u.acc.n - 1) |-> [ver |-> u.meta[i + 1].ver, spent |-> u.meta[i + 1].spent, proof |-> u.client[i]]]

Probes == ProbesOf(meta, acc, client, ghost, PrevView)

B01(b) == IF b THEN "1" ELSE "0"
Desc(p, x) == p.src \o ToString(p.b) \o ":" \o p.mut \o ":" \o ToString(p.arg) \o ":" \o B01(x)

\* The property.  (Bound once: TLC re-evaluates LET definitions at every use.)
MemberSound ==
  \A hs \in {HashesOf(meta)} :
    \A np \in {[i \in 0..(acc.n - 1) |-> NaivePath(hs, i)]} :
      \A ps \in {Probes} :
        /\ \A p \in ps : MemberE(acc, p.e) <=> ExactE(meta, np, p.e)
        /\ PrintT("@@MS " \o ToJson(
             [n0 |-> plan.n0, U |-> plan.U, k |-> plan.k, mode |-> plan.mode, ph |-> plan.ph, n |-> acc.n,
              probes |-> {Desc(p, ExactE(meta, np, p.e)) : p \in ps},
              full |-> IF Full THEN {[d |-> Desc(p, ExactE(meta, np, p.e)), h |-> PLeaf(p.e), i |-> p.e.idx, p |-> p.e.proof] : p \in ps}
                       ELSE {}]))

\* A v1 block supplement presents SEVERAL elements at once (per transaction: siacoin inputs, siafund
\* inputs, revised contracts, storage-proof contracts; per block: expiring contracts); the same ID may
\* occur more than once.  validateSupplement accepts the list iff EVERY entry, on its own, is a member:
\* no entry may ride on another entry with the same id.  Placement therefore must not matter: with g the
\* genuine leaf and p any probe derived from it,  <<g, p>> and <<p, g>> are acceptable iff p is exact.
\* (Checked in the Full configurations; the harness applies the placements -- same list, later
\* transaction, other list, forged first, and the forged copy as the parent actually spent -- to every
\* probe whose id a genuine element has.)
SuppAccept(a, es) == \A i \in 1..Len(es) : MemberE(a, es[i])
SupplementSound ==
  Full =>
    \A hs \in {HashesOf(meta)} :
      \A np \in {[i \in 0..(acc.n - 1) |-> NaivePath(hs, i)]} :
        \A p \in Probes :
          p.src = "L" =>
            LET i == p.b
                g == [id |-> meta[i + 1].id, ver |-> meta[i + 1].ver, f |-> 0, idx |-> i, spent |-> meta[i + 1].spent, proof |-> client[i]]
            IN /\ SuppAccept(acc, <<g, p.e>>) <=> ExactE(meta, np, p.e)
               /\ SuppAccept(acc, <<p.e, g>>) <=> ExactE(meta, np, p.e)

\* Leaves of different kinds are disjoint: no reinterpreted element is a member, and its leaf is the
\* leaf of no element of the history (in any version, at any position, with either flag).
KindsDisjoint ==
  Full =>
    \A p \in Probes :
      p.mut = "reinterp" =>
        /\ ~MemberE(acc, p.e)
        /\ \A i \in 1..Len(meta) : \A sp \in BOOLEAN : PLeaf(p.e) # LeafHash(meta[i].id, meta[i].ver, i - 1, sp)

\* A transaction carries several parents (siacoin inputs, siafund inputs, revised contracts, resolved
\* contracts and, for storage proofs, chain index elements).  It is acceptable iff EVERY one of them is a
\* member: the verdict is the conjunction over all parents, independent of their order, of the list they
\* stand in and of what stands before or after them (a renewal, an expiration, a storage proof).
TxnAccept(a, es) == \A i \in 1..Len(es) : MemberE(a, es[i])
TxnSound ==
  Full =>
    \A hs \in {HashesOf(meta)} :
      \A np \in {[i \in 0..(acc.n - 1) |-> NaivePath(hs, i)]} :
        \A p \in Probes :
          p.src = "L" =>
            LET i == p.b
                g == [id |-> meta[i + 1].id, ver |-> meta[i + 1].ver, f |-> 0, idx |-> i, spent |-> meta[i + 1].spent, proof |-> client[i]]
                x == ExactE(meta, np, p.e)
            IN /\ TxnAccept(acc, <<p.e, g, g>>) <=> x
               /\ TxnAccept(acc, <<g, p.e, g>>) <=> x
               /\ TxnAccept(acc, <<g, g, p.e>>) <=> x

\* Second use in the block.  An earlier, honest transaction of the block under validation may already
\* have touched the element: revised it (contracts) or spent it (outputs).  What the block has pending
\* for an ID proves nothing about the element a LATER transaction carries under that ID: after a revision
\* the later parent must still be exactly the live leaf (the contract as the accumulator has it, with its
\* own proof); after a spend nothing is acceptable any more.
ReuseAccept(a, pending, e) == IF pending = "spent" THEN FALSE ELSE MemberE(a, e)
ReuseSound ==
  Full =>
    \A hs \in {HashesOf(meta)} :
      \A np \in {[i \in 0..(acc.n - 1) |-> NaivePath(hs, i)]} :
        \A p \in Probes :
          /\ ReuseAccept(acc, "revised", [p.e EXCEPT !.spent = FALSE]) <=> ExactE(meta, np, [p.e EXCEPT !.spent = FALSE])
          /\ ~ReuseAccept(acc, "spent", p.e)

\* The carrier.  The supplement travels with a block, and the block can take several forms: with v1
\* transactions or without any, with V2 block data (from AllowHeight on; possibly holding v2
\* transactions) or without.  Before RequireHeight the verdict on the supplement does not depend on
\* the form: it is acceptable iff every supplied element -- in a per-transaction list where the form has
\* v1 transactions, or among the expiring contracts -- is a member.  From RequireHeight on only the
\* empty supplement is acceptable.  (Checked in the Full configurations, which also print the forms;
\* the harness must build a carrier of every form and present its probes through each.)
Forms == {"v1-txns-no-v2-data", "v1-no-txns", "v2-data-no-txns", "v2-data-one-v2-txn", "v2-data-v1-txns"}
CarrierAccept(a, era, form, es) == IF era = "post-require" THEN es = <<>> ELSE SuppAccept(a, es)
CarrierSound ==
  Full =>
    \A hs \in {HashesOf(meta)} :
      \A np \in {[i \in 0..(acc.n - 1) |-> NaivePath(hs, i)]} :
        /\ \A p \in Probes : \A form \in Forms :
             /\ CarrierAccept(acc, "pre-require", form, <<p.e>>) <=> ExactE(meta, np, p.e)
             /\ ~CarrierAccept(acc, "post-require", form, <<p.e>>)
        /\ PrintT("@@CF " \o ToJson([forms |-> Forms, post |-> "empty-supplement-only"]))

\* A v2 storage proof names the block that seeds its challenge by a chain index element (its
\* ProofIndex, at the contract's proof height).  The resolution is acceptable only if that element is a
\* member -- an ancestor of the applied history, not the index of a competing or reverted block, not an
\* altered or never-created one -- WHATEVER the size of the contract's file: an empty file has no leaf to
\* challenge, but the proof still has to refer to the chain's own history.  (Checked in the Full
\* configurations; the harness presents every chain-index probe as the ProofIndex of a storage proof for
\* a genuine contract with a non-empty and with an empty file.)
HistoryAccept(a, e, filesize) == MemberE(a, e)
HistorySound ==
  Full =>
    \A hs \in {HashesOf(meta)} :
      \A np \in {[i \in 0..(acc.n - 1) |-> NaivePath(hs, i)]} :
        \A p \in Probes : \A size \in {0, 64} :
          HistoryAccept(acc, [p.e EXCEPT !.spent = FALSE], size) <=> ExactE(meta, np, [p.e EXCEPT !.spent = FALSE])

-----------------------------------------------------------------------------
(* ------------------------------ behaviour -------------------------------- *)
\* A block spends the leaves S, revises the leaves R and creates k elements with fresh ids.
BlockRes(S, R, k) ==
  LET n0 == acc.n
      U  == S \cup R
      m1 == [i \in 1..Len(meta) |->
               [id |-> meta[i].id,
                ver |-> IF (i - 1) \in R THEN meta[i].ver + 1 ELSE meta[i].ver,
                spent |-> IF (i - 1) \in S THEN TRUE ELSE meta[i].spent]]
      H  == [x \in U |-> LeafHash(m1[x + 1].id, m1[x + 1].ver, x, m1[x + 1].spent)]
      P0 == [x \in U |-> client[x]]
      ids == [j \in 1..k |-> nextId + j - 1]
      r  == ApplyBlock(acc, U, H, P0, ids)
  IN [meta |-> m1 \o [j \in 1..k |-> [id |-> ids[j], ver |-> 0, spent |-> FALSE]],
      acc |-> r.acc,
      client |-> [i \in 0..(r.acc.n - 1) |->
                    IF i < n0 THEN UpdateElementProofApply(r.eau, [idx |-> i, proof |-> client[i]])
                    ELSE r.added[i - n0]],
      blk |-> r.eau.P]

Block(S, R, k) ==
  /\ \E r \in {BlockRes(S, R, k)} :
       meta' = r.meta /\ acc' = r.acc /\ client' = r.client /\ blk' = r.blk
  /\ undo' = <<[meta |-> meta, acc |-> acc, client |-> client, U |-> S \cup R]>> \o undo
  /\ nextId' = nextId + k
  /\ UNCHANGED ghost

RECURSIVE Sorted(_)
Sorted(S) == IF S = {} THEN <<>> ELSE <<Min(S)>> \o Sorted(S \ {Min(S)})

\* The elements the reverted block leaves behind: the updated leaves in their new
\* version / status and the created leaves, with their proofs on that branch.
GhostsOfTip ==
  LET u == Head(undo)
      xs == Sorted(u.U \cup (u.acc.n..(acc.n - 1)))
  IN [j \in 1..Len(xs) |->
        [id |-> meta[xs[j] + 1].id, ver |-> meta[xs[j] + 1].ver, idx |-> xs[j],
         spent |-> meta[xs[j] + 1].spent, proof |-> client[xs[j]]]]

Roles(U, mode) == IF mode = 0 THEN [S |-> U, R |-> {}] ELSE [S |-> {x \in U : x % 2 = 1}, R |-> U]

MInit ==
  /\ \E n0 \in MinInit..MaxInit : \E U \in SUBSET (0..(n0 - 1)) : \E k \in 0..MaxAdd : \E mode \in Modes :
        /\ ~(U = {} /\ k = 0)
        /\ (U = {} => mode = 0)
        /\ plan = [ph |-> 0, n0 |-> n0, U |-> U, k |-> k, mode |-> mode]
  /\ \E s \in {NaiveState(0)} : meta = s.meta /\ acc = s.acc /\ client = s.client
  /\ blk = NoProofs /\ undo = <<>> /\ nextId = 0 /\ ghost = <<>>

MBuild ==
  /\ plan.ph = 0
  /\ \E s \in {NaiveState(plan.n0)} : meta' = s.meta /\ acc' = s.acc /\ client' = s.client
  /\ nextId' = plan.n0
  /\ UNCHANGED <<blk, undo, ghost>>
  /\ plan' = [plan EXCEPT !.ph = 1]

MApply ==
  /\ plan.ph = 1
  /\ \E r \in {Roles(plan.U, plan.mode)} : Block(r.S, r.R, plan.k)
  /\ plan' = [plan EXCEPT !.ph = 2]

MRevert ==
  /\ plan.ph = 2
  /\ ghost' = ghost \o GhostsOfTip
  /\ Revert
  /\ UNCHANGED nextId
  /\ plan' = [plan EXCEPT !.ph = 3]

\* the competing block: spends the smallest leaf the reverted block left alone, creates as many
\* elements as the reverted block did (at least one) -- same positions, fresh ids
MCompete ==
  /\ plan.ph = 3
  /\ LET rest == (0..(acc.n - 1)) \ plan.U
         S2 == IF rest = {} THEN {} ELSE {Min(rest)}
         k2 == IF plan.k = 0 THEN 1 ELSE plan.k
     IN Block(S2, {}, k2)
  /\ plan' = [plan EXCEPT !.ph = 4]

MNext == MBuild \/ MApply \/ MRevert \/ MCompete
MSpec == MInit /\ [][MNext]_mvars
=============================================================================
