\* Property C04, quick tier: every forest reachable from a naive forest of n0 <= 5 leaves by one block
\* (every subset U, k <= 3 created, modes spend / revise+resolve), its revert and a competing block:
\* 2 370 states, ~0.4 M probes, ~8 s.  The harness (harness/cmd/c04) writes this file itself per run
\* (MinInit..MaxInit slices; thorough: n0 <= 9, k <= 4 in four slices, 13 leaves, ~12 M descriptors).
SPECIFICATION MSpec
CONSTANTS
  MaxH = 3
  MaxAdd = 3
  MaxLeaves = 9
  MinInit = 0
  MaxInit = 5
  MaxUndo = 2
  NF = 2
  Modes = {0, 1}
  Full = FALSE
INVARIANTS CountMatches RootsMatchNaive ProofsMatchNaive MemberSound SupplementSound HistorySound CarrierSound KindsDisjoint ReuseSound TxnSound
CHECK_DEADLOCK FALSE
