\* Exhaustive: every block of <= MaxTx abstract transactions on the genesis forest (2 siacoin outputs,
\* 1 siafund output, 1 v1 contract, chain index), then its revert; one behaviour per block.
\* Quick-tier constants; the harness writes the same file with MaxTx = 3 for the thorough tier
\* (measured: MaxTx 2 -> 1 372 blocks, 4 118 states, 5 s; MaxTx 3 -> 37 216 blocks, 111 650 states, 30 s).
SPECIFICATION BSpec
CONSTANTS
  MaxH = 4
  MaxAdd = 5
  MaxLeaves = 31
  MaxInit = 0
  MaxUndo = 3
  Depth = 2
  MaxTx = 2
  MatDelay = 1
  EphH = 5
  Exhaustive = TRUE
  GenSC = {2}
  GenSF = {1}
  GenFC = {1}
INVARIANTS BCount BRoots BProofs BVerify BSane
PROPERTIES RevertRestores
CHECK_DEADLOCK FALSE
