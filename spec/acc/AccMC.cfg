\* Base specification, exhaustive: every initial forest of <= MaxInit leaves, up to MaxUndo consecutive
\* blocks (every subset U, every k <= MaxAdd) with reverts in between.  Quick-tier constants; the
\* harness writes the same file with MaxInit = 3 for the thorough tier
\* (measured: MaxInit 2 -> 7 923 states, 14 s; 3 -> 32 110 states, 70 s; 4 -> 128 873 states, 8.6 min).
SPECIFICATION Spec
CONSTANTS
  MaxH = 3
  MaxAdd = 5
  MaxLeaves = 12
  MaxInit = 2
  MaxUndo = 2
INVARIANTS CountMatches RootsMatchNaive ProofsMatchNaive ProofsVerify
PROPERTIES RevertRestores
CHECK_DEADLOCK FALSE
