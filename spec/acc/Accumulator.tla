---------------------------- MODULE Accumulator ----------------------------
(* Element accumulator of consensus/merkle.go (properties C04 C05 C06 C18 C20).

   Two layers in one module.

   Definition layer (oracle): the Merkle forest built naively over the
   sequence of all leaves ever added.  The sequence is cut by the binary
   digits of its length into perfect trees (largest first); RootOf builds a
   perfect tree with Node; NaivePath is the list of sibling subtree roots of
   a leaf, bottom-up; Member is "the proof has the height of a tree that
   exists and folds to that tree's root".

   Algorithm layer: transcription of updateLeaves/recompute, addLeaves (with
   treeGrowth), applyBlock, revertBlock, updateProof and the two
   updateElementProof methods of consensus/merkle.go.

   Hashes are symbolic: a hash is the text of its pre-image,
       N(l,r)                     blake2b.SumPair(l, r)
       L<id>v<ver>@<idx><s|u>     elementLeaf.hash() of element <id> in its
                                  <ver>-th version at leaf index <idx>,
                                  s = spent, u = unspent
   so the model is injective by construction and everything it establishes
   is relative to collision resistance.  The harness (harness/hterm) parses
   the terms and evaluates them with the real hash functions.

   TLC note: inside an action TLC does not cache LET definitions (they are
   re-evaluated at every use, which made the prototype ~25x slower).  All
   computations are therefore value-level operators (ApplyRes, RevertRes)
   whose result is bound once by  \E r \in {ApplyRes(..)} : ...           *)
EXTENDS Integers, Sequences, FiniteSets, TLC

CONSTANTS MaxH,        \* tree heights 0..MaxH are represented
          MaxAdd,      \* most leaves added by one block
          MaxLeaves,   \* bound on the total number of leaves
          MaxInit,     \* largest initial forest
          MaxUndo      \* bound on the number of un-reverted blocks

ASSUME 2^(MaxH + 1) > MaxLeaves   \* every forest of <= MaxLeaves leaves fits

Pow2(k) == 2^k
Node(l, r) == "N(" \o l \o "," \o r \o ")"
LeafHash(id, ver, idx, spent) ==
  "L" \o ToString(id) \o "v" \o ToString(ver) \o "@" \o ToString(idx) \o (IF spent THEN "s" ELSE "u")

HasTree(n, h) == (n \div Pow2(h)) % 2 = 1              \* acc.hasTreeAtHeight
ClearBits(x, k) == (x \div Pow2(k)) * Pow2(k)           \* clearBits
RECURSIVE MergeHeight(_, _)                             \* mergeHeight = bits.Len64(x ^ y)
MergeHeight(x, y) == IF x = y THEN 0 ELSE 1 + MergeHeight(x \div 2, y \div 2)
Min(S) == CHOOSE x \in S : \A y \in S : x <= y

-----------------------------------------------------------------------------
(* ------------------------- definition layer ------------------------------ *)
\* hs: sequence of leaf hashes; leaf index i is hs[i + 1].
\* RootOf(hs, lo, hi): root of the perfect tree over leaves lo .. hi-1 (hi - lo a power of two).
RECURSIVE RootOf(_, _, _)
RootOf(hs, lo, hi) == IF hi - lo = 1 THEN hs[lo + 1]
                      ELSE LET mid == (lo + hi) \div 2 IN Node(RootOf(hs, lo, mid), RootOf(hs, mid, hi))

\* The tree of height h (if the length has bit h) starts after all larger trees.
TreeStart(n, h) == ClearBits(n, h + 1)
NaiveRoot(hs, h) == LET s == TreeStart(Len(hs), h) IN RootOf(hs, s, s + Pow2(h))
NaiveRoots(hs) == [h \in 0..MaxH |-> IF HasTree(Len(hs), h) THEN NaiveRoot(hs, h) ELSE ""]

\* Leaf i of n lies in the tree whose height is one less than the height at which i and n merge.
TreeHeightOf(n, i) == MergeHeight(n, i) - 1
\* Sibling subtree of leaf i at level j (1 = the neighbouring leaf): its leaf range.
SiblingLo(i, j) == LET sz == Pow2(j - 1)  b == i \div sz IN (IF b % 2 = 0 THEN b + 1 ELSE b - 1) * sz
NaivePath(hs, i) ==
  [j \in 1..TreeHeightOf(Len(hs), i) |-> RootOf(hs, SiblingLo(i, j), SiblingLo(i, j) + Pow2(j - 1))]

\* proofRoot: fold a proof from leaf hash h at leaf index idx.
RECURSIVE ProofRoot(_, _, _, _)
ProofRoot(h, idx, proof, k) ==
  IF k > Len(proof) THEN h
  ELSE IF (idx \div Pow2(k - 1)) % 2 = 0 THEN ProofRoot(Node(h, proof[k]), idx, proof, k + 1)
       ELSE ProofRoot(Node(proof[k], h), idx, proof, k + 1)
FullRoot(h, idx, proof) == ProofRoot(h, idx, proof, 1)

\* containsLeaf
Member(a, h, idx, proof) ==
  /\ Len(proof) <= MaxH
  /\ HasTree(a.n, Len(proof))
  /\ a.trees[Len(proof)] = FullRoot(h, idx, proof)

-----------------------------------------------------------------------------
(* -------------------------- algorithm layer ------------------------------ *)
\* updateLeaves.recompute over the index range [i, j): ls = updated indices in the range,
\* H = idx -> new leaf hash, P = idx -> proof (of every updated leaf of the block).
\* Returns the root and the proofs with sibling hashes rewritten.
RECURSIVE Recompute(_, _, _, _, _)
Recompute(i, j, ls, H, P) ==
  IF j - i = 1 THEN [root |-> H[i], P |-> P]
  ELSE
    LET height == MergeHeight(i, j - 1)          \* log2(j - i), as i is aligned
        mid    == (i + j) \div 2
        left   == {x \in ls : x < mid}
        right  == {x \in ls : x >= mid}
        L1 == IF left = {} THEN [root |-> P[Min(right)][height], P |-> P]
              ELSE LET r == Recompute(i, mid, left, H, P) IN
                   [root |-> r.root,
                    P |-> [x \in DOMAIN r.P |-> IF x \in right THEN [r.P[x] EXCEPT ![height] = r.root] ELSE r.P[x]]]
        R1 == IF right = {} THEN [root |-> L1.P[Min(left)][height], P |-> L1.P]
              ELSE LET r == Recompute(mid, j, right, H, L1.P) IN
                   [root |-> r.root,
                    P |-> [x \in DOMAIN r.P |-> IF x \in left THEN [r.P[x] EXCEPT ![height] = r.root] ELSE r.P[x]]]
    IN [root |-> Node(L1.root, R1.root), P |-> R1.P]

\* updateLeaves: leaves grouped by tree (= proof length), each tree recomputed.
RECURSIVE UpdateLeavesTrees(_, _, _, _)
UpdateLeavesTrees(hts, U, H, P) ==
  IF hts = {} THEN P
  ELSE LET h  == Min(hts)
           ls == {x \in U : Len(P[x]) = h}
           st == ClearBits(Min(ls), h)
           r  == Recompute(st, st + Pow2(h), ls, H, P)
       IN UpdateLeavesTrees(hts \ {h}, U, H, r.P)
UpdateLeaves(U, H, P) == IF U = {} THEN P ELSE UpdateLeavesTrees({Len(P[x]) : x \in U}, U, H, P)

\* addLeaves, one leaf (batch position i): walk up the forest merging trees of equal height.
\* st = [n, trees, AP (proofs of the added leaves by batch position), growth (by bit), init]
AddOne(st, i, leafHash) ==
  LET RECURSIVE Walk(_, _, _)
      Walk(s, height, h) ==
        IF ~HasTree(s.n, height)
        THEN [s EXCEPT !.trees[height] = h, !.n = s.n + 1]
        ELSE
          LET oldRoot  == s.trees[height]
              startNew == i - Pow2(height)
              startOld == i - Pow2(height + 1)
              AP2 == [j \in DOMAIN s.AP |->
                        IF j <= i /\ j > startNew /\ j >= 0 THEN Append(s.AP[j], oldRoot)
                        ELSE IF j <= startNew /\ j > startOld /\ j >= 0 THEN Append(s.AP[j], h)
                        ELSE s.AP[j]]
              cur  == (s.n + 1) - Pow2(height)
              prev == (s.n + 1) - Pow2(height + 1)
              G2 == [bit \in DOMAIN s.growth |->
                        IF ~HasTree(s.init, bit) THEN s.growth[bit]
                        ELSE LET ts == ClearBits(s.init, bit + 1) IN
                             IF ts >= cur THEN Append(s.growth[bit], oldRoot)
                             ELSE IF ts >= prev THEN Append(s.growth[bit], h)
                             ELSE s.growth[bit]]
          IN Walk([s EXCEPT !.AP = AP2, !.growth = G2], height + 1, Node(oldRoot, h))
  IN Walk(st, 0, leafHash)

\* ids: sequence of the ids of the added leaves (each enters in version 0, unspent).
RECURSIVE AddLeavesRec(_, _, _)
AddLeavesRec(st, i, ids) ==
  IF i = Len(ids) THEN st
  ELSE AddLeavesRec(AddOne(st, i, LeafHash(ids[i + 1], 0, st.n, FALSE)), i + 1, ids)
AddLeaves(n, trees, ids) ==
  AddLeavesRec([n |-> n, trees |-> trees, AP |-> [j \in 0..(Len(ids) - 1) |-> <<>>],
                growth |-> [b \in 0..MaxH |-> <<>>], init |-> n], 0, ids)

\* applyBlock.  a = accumulator, U = updated leaf indices, H = their new hashes,
\* P0 = the proofs the block carries for them (valid for a), ids = added leaves.
\* Result: the new accumulator, the elementApplyUpdate and the proofs of the added leaves.
ApplyBlock(a, U, H, P0, ids) ==
  LET P1  == UpdateLeaves(U, H, P0)
      tr1 == [h \in 0..MaxH |->
                LET ls == {x \in U : Len(P1[x]) = h} IN
                IF ls = {} THEN a.trees[h] ELSE FullRoot(H[Min(ls)], Min(ls), P1[Min(ls)])]
      st  == AddLeaves(a.n, tr1, ids)
  IN [acc   |-> [n |-> st.n, trees |-> st.trees],
      eau   |-> [U |-> U, H |-> H,
                 ht |-> [x \in U |-> Len(P1[x])],                     \* grouping of eau.updated
                 P  |-> [x \in U |-> P1[x] \o st.growth[Len(P1[x])]], \* proofs after the growth append
                 growth |-> st.growth, oldN |-> a.n, newN |-> st.n],
      added |-> st.AP]

\* revertBlock.  a = accumulator BEFORE the block, H/P0 = the updated leaves as of that state.
RevertBlock(a, U, H, P0) ==
  LET P1 == UpdateLeaves(U, H, P0)
  IN [U |-> U, H |-> H, ht |-> [x \in U |-> Len(P1[x])], P |-> P1, n |-> a.n]

\* updateProof: e = [idx, proof]; up = an apply or revert update.
UpdateProof(e, up) ==
  LET inTree == {x \in up.U : up.ht[x] = Len(e.proof)}
  IN IF inTree = {} THEN e.proof
     ELSE LET m    == Min({MergeHeight(e.idx, x) : x \in inTree})
              best == Min({x \in inTree : MergeHeight(e.idx, x) = m})
          IN IF best = e.idx
             THEN [k \in 1..Len(e.proof) |-> up.P[best][k]]
             ELSE [k \in 1..Len(e.proof) |->
                     IF k > m THEN up.P[best][k]
                     ELSE IF k = m THEN FullRoot(up.H[best], best, SubSeq(up.P[best], 1, m - 1))
                     ELSE e.proof[k]]

\* elementApplyUpdate.updateElementProof
UpdateElementProofApply(eau, e) ==
  IF e.idx >= eau.oldN THEN e.proof
  ELSE LET p1 == UpdateProof(e, eau)
       IN IF MergeHeight(eau.newN, e.idx) # Len(p1) THEN p1 \o eau.growth[Len(p1)] ELSE p1

\* elementRevertUpdate.updateElementProof (defined for e.idx < eru.n only; the code panics otherwise)
UpdateElementProofRevert(eru, e) ==
  LET mh == MergeHeight(eru.n, e.idx)
      pt == IF mh <= Len(e.proof) THEN SubSeq(e.proof, 1, mh - 1) ELSE e.proof
  IN UpdateProof([idx |-> e.idx, proof |-> pt], eru)

-----------------------------------------------------------------------------
(* ------------------------------ behaviour -------------------------------- *)
VARIABLES meta,    \* truth: sequence of [id, ver, spent], one per leaf ever added
          acc,     \* [n, trees]: the accumulator
          client,  \* leaf index -> proof held by a client who applies every update
          blk,     \* leaf index -> proof in the block's own copy of each updated element
          undo     \* stack of pushed states (the caller of RevertBlock holds the parent state)
vars == <<meta, acc, client, blk, undo>>

HashesOf(m) == [i \in 1..Len(m) |-> LeafHash(m[i].id, m[i].ver, i - 1, m[i].spent)]
NoProofs == [x \in {} |-> <<>>]

\* The naive forest over n0 fresh leaves.
NaiveState(n0) ==
  LET m == [i \in 1..n0 |-> [id |-> i - 1, ver |-> 0, spent |-> FALSE]] IN
  [meta |-> m, acc |-> [n |-> n0, trees |-> NaiveRoots(HashesOf(m))],
   client |-> [i \in 0..(n0 - 1) |-> NaivePath(HashesOf(m), i)]]

Init == \E n0 \in 0..MaxInit : \E s \in {NaiveState(n0)} :
          meta = s.meta /\ acc = s.acc /\ client = s.client /\ blk = NoProofs /\ undo = <<>>

\* A block updates the leaves U (new version; spent flag toggled) and adds k leaves.
Updated(m, U) == [i \in 1..Len(m) |-> IF (i - 1) \in U THEN [m[i] EXCEPT !.ver = @ + 1, !.spent = ~@] ELSE m[i]]
ApplyRes(U, k) ==
  LET n0 == acc.n
      m1 == Updated(meta, U)
      H  == [x \in U |-> LeafHash(m1[x + 1].id, m1[x + 1].ver, x, m1[x + 1].spent)]
      P0 == [x \in U |-> client[x]]               \* the block carries current proofs
      ids == [j \in 1..k |-> Len(meta) + j - 1]
      r  == ApplyBlock(acc, U, H, P0, ids)
  IN [meta |-> m1 \o [j \in 1..k |-> [id |-> ids[j], ver |-> 0, spent |-> FALSE]],
      acc |-> r.acc,
      client |-> [i \in 0..(r.acc.n - 1) |->
                    IF i < n0 THEN UpdateElementProofApply(r.eau, [idx |-> i, proof |-> client[i]])
                    ELSE r.added[i - n0]],
      blk |-> r.eau.P]

Apply(U, k) ==
  /\ acc.n + k <= MaxLeaves
  /\ Len(undo) < MaxUndo
  /\ \E r \in {ApplyRes(U, k)} :
       meta' = r.meta /\ acc' = r.acc /\ client' = r.client /\ blk' = r.blk
  /\ undo' = <<[meta |-> meta, acc |-> acc, client |-> client, U |-> U]>> \o undo

\* Reverting the latest block: the caller returns to the pushed accumulator; clients
\* refresh their proofs from the revert update.
RevertRes ==
  LET u  == Head(undo)
      U  == u.U
      H  == [x \in U |-> LeafHash(u.meta[x + 1].id, u.meta[x + 1].ver, x, u.meta[x + 1].spent)]
      P0 == [x \in U |-> u.client[x]]             \* the block's parents, valid for the parent state
      eru == RevertBlock(u.acc, U, H, P0)
  IN [client |-> [i \in 0..(u.acc.n - 1) |-> UpdateElementProofRevert(eru, [idx |-> i, proof |-> client[i]])],
      \* revertBlock re-runs updateLeaves over the unchanged parent-state leaves: the block's copies
      \* must come out as they went in (then nothing is left to track), otherwise they are kept
      \* and ProofsMatchNaive reports them.
      blk |-> IF eru.P = P0 THEN NoProofs ELSE eru.P]

Revert ==
  /\ undo # <<>>
  /\ meta' = Head(undo).meta
  /\ acc' = Head(undo).acc
  /\ \E r \in {RevertRes} : client' = r.client /\ blk' = r.blk
  /\ undo' = Tail(undo)

Next == \/ \E U \in SUBSET (0..(acc.n - 1)), k \in 0..MaxAdd : ~(U = {} /\ k = 0) /\ Apply(U, k)
        \/ Revert
Spec == Init /\ [][Next]_vars

-----------------------------------------------------------------------------
(* ------------------- what the generators hand to the harness ------------- *)
\* Expected accumulator and expected proof of every leaf: n, trees by height ("" where the
\* forest has no tree of that height), proofs by leaf index, meta = <<id, ver, spent 0/1>> by
\* leaf index.  All sequences are 1-based so that they print as JSON arrays.
Snap(m, a, c) ==
  [n      |-> a.n,
   trees  |-> [h \in 1..(MaxH + 1) |-> IF HasTree(a.n, h - 1) THEN a.trees[h - 1] ELSE ""],
   proofs |-> [i \in 1..a.n |-> c[i - 1]],
   meta   |-> [i \in 1..Len(m) |-> <<m[i].id, m[i].ver, IF m[i].spent THEN 1 ELSE 0>>]]
\* One step of a behaviour: op in {"init", "apply", "revert"}; for "init" k is the forest size.
Step(op, U, k, m, a, c) == [op |-> op, U |-> U, k |-> k, s |-> Snap(m, a, c)]

-----------------------------------------------------------------------------
(* ------------------------------ invariants ------------------------------- *)
CountMatches == acc.n = Len(meta) /\ DOMAIN client = 0..(acc.n - 1)
RootsMatchNaive ==
  LET hs == HashesOf(meta) IN \A h \in 0..MaxH : HasTree(acc.n, h) => acc.trees[h] = NaiveRoot(hs, h)
ProofsMatchNaive ==
  LET hs == HashesOf(meta) IN
  /\ \A i \in DOMAIN client : client[i] = NaivePath(hs, i)
  /\ \A i \in DOMAIN blk : blk[i] = NaivePath(hs, i)
\* every tracked proof verifies with the element's current status, and not with the other one
ProofsVerify ==
  \A i \in DOMAIN client :
    LET m == meta[i + 1] IN
    /\ Member(acc, LeafHash(m.id, m.ver, i, m.spent), i, client[i])
    /\ ~Member(acc, LeafHash(m.id, m.ver, i, ~m.spent), i, client[i])
\* after Revert everything equals the pushed state
RevertRestores ==
  [][(undo # <<>> /\ undo' = Tail(undo)) =>
       (meta' = Head(undo).meta /\ acc' = Head(undo).acc /\ client' = Head(undo).client)]_vars
=============================================================================
