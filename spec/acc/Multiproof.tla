----------------------------- MODULE Multiproof -----------------------------
(* Multiproof compression of v2 transaction sets, types/multiproof.go (property C18).

   Conventions are those of Accumulator.tla, whose definition layer is reused through an
   instance: the forest is the NAIVE forest over the sequence of leaf hashes, a hash is the
   text of its pre-image (N(l,r), L<id>v<ver>@<idx><s|u>), the individual proof of leaf i is
   NaivePath(hs, i).

   Definition layer.  The multiproof of a set S of leaves is, for every tree of the forest
   that holds a leaf of S -- trees in ascending height, the order of the wire format --, the
   left-to-right list of the roots of the MAXIMAL perfect subtrees disjoint from S.

   Algorithm layer.  Transcription of forEachElementLeaf, forEachTree, splitLeaves,
   multiproofSize, computeMultiproof, expandMultiproof and of the two halves of the wire
   format that are not plain field encoding: the numLeaves inference of
   V2TransactionsMultiproof.EncodeTo and the recovery of the proof lengths in DecodeFrom.

   A transaction is  [sci, sfi, rev : Seq(leaf), res : Seq([p, k, ci])]  where a leaf is a
   leaf index or -1 (LeafIndex = UnassignedLeafIndex: an ephemeral parent, which carries no
   proof and is skipped); k = 0 expiration, 1 renewal, 2 storage proof (only then the chain
   index element ci is visited).  The "slots" of a transaction set are all parent positions in
   the order forEachElementLeaf walks them; proofs are kept per slot (the code mutates each
   element through its own pointer, so two slots holding the same leaf are separate objects).

   Cases.  One behaviour per case: Init chooses (n, m) -- a forest of n leaves and a
   multiplicity 0..2 for every leaf (2 = the same leaf referenced twice; at most MaxDup
   leaves twice) --, Layout turns it
   into a transaction set (kinds by leaf type, duplicates spread over transactions, ephemeral
   parents mixed in), Eval computes everything once and prints the case for the harness.     *)
EXTENDS Integers, Sequences, FiniteSets, TLC, Json

CONSTANTS MinN, MaxN,   \* forest sizes
          MaxHt,        \* 2^(MaxHt+1) > MaxN
          MaxDup        \* at most this many leaves are referenced twice

A == INSTANCE Accumulator WITH MaxH <- MaxHt, MaxAdd <- 0, MaxLeaves <- MaxN, MaxInit <- MaxN, MaxUndo <- 0,
                               meta <- <<>>, acc <- <<>>, client <- <<>>, blk <- <<>>, undo <- <<>>

Pow2(k) == 2^k
Min(S) == CHOOSE x \in S : \A y \in S : x <= y
RECURSIVE Sum(_)
Sum(s) == IF s = <<>> THEN 0 ELSE Head(s) + Sum(Tail(s))
RECURSIVE Concat(_)
Concat(ss) == IF ss = <<>> THEN <<>> ELSE Head(ss) \o Concat(Tail(ss))

\* element <idx> in its first version at leaf index <idx>, unspent (multiproof leaves are never spent)
LeafHashOf(idx) == A!LeafHash(idx, 0, idx, FALSE)
Hashes(n) == [i \in 1..n |-> LeafHashOf(i - 1)]

-----------------------------------------------------------------------------
(* ------------------------- definition layer ------------------------------ *)
Disjoint(S, lo, hi) == \A x \in S : x < lo \/ x >= hi
RECURSIVE MaxDisjoint(_, _, _, _)
MaxDisjoint(hs, lo, hi, S) ==
  IF Disjoint(S, lo, hi) THEN <<A!RootOf(hs, lo, hi)>>
  ELSE IF hi - lo = 1 THEN <<>>
  ELSE LET mid == (lo + hi) \div 2 IN MaxDisjoint(hs, lo, mid, S) \o MaxDisjoint(hs, mid, hi, S)

DefTree(hs, h, S) ==
  LET s == A!TreeStart(Len(hs), h) IN
  IF ~A!HasTree(Len(hs), h) \/ Disjoint(S, s, s + Pow2(h)) THEN <<>> ELSE MaxDisjoint(hs, s, s + Pow2(h), S)
DefMultiproof(hs, S) == Concat([h1 \in 1..(MaxHt + 1) |-> DefTree(hs, h1 - 1, S)])

-----------------------------------------------------------------------------
(* -------------------------- algorithm layer ------------------------------ *)
\* forEachElementLeaf: the parent slots in visiting order
ResSlots(r) == <<r.p>> \o (IF r.k = 2 THEN <<r.ci>> ELSE <<>>)
TxSlots(t) == t.sci \o t.sfi \o t.rev \o Concat([j \in 1..Len(t.res) |-> ResSlots(t.res[j])])
AllSlots(txs) == Concat([j \in 1..Len(txs) |-> TxSlots(txs[j])])
\* the visited ones: LeafIndex # UnassignedLeafIndex.  I = slot -> leaf index.
RECURSIVE VisitedFrom(_, _)
VisitedFrom(I, k) == IF k > Len(I) THEN <<>> ELSE (IF I[k] # -1 THEN <<k>> ELSE <<>>) \o VisitedFrom(I, k + 1)
Visited(I) == VisitedFrom(I, 1)

\* sort.Slice by leaf index (insertion sort; equal indices keep their order, the code's order among them is unspecified)
RECURSIVE InsertSorted(_, _, _)
InsertSorted(ls, s, I) ==
  IF ls = <<>> THEN <<s>>
  ELSE IF I[s] <= I[Head(ls)] THEN <<s>> \o ls
  ELSE <<Head(ls)>> \o InsertSorted(Tail(ls), s, I)
RECURSIVE SortFrom(_, _, _)
SortFrom(ls, k, I) == IF k > Len(ls) THEN <<>> ELSE InsertSorted(SortFrom(ls, k + 1, I), ls[k], I)
\* stable: later elements are inserted first, an equal earlier one goes in front of them
SortByIdx(ls, I) == SortFrom(ls, 1, I)

\* splitLeaves: sort.Search for the first leaf with LeafIndex >= mid
SplitAt(ls, mid, I) ==
  LET ge == {j \in 1..Len(ls) : I[ls[j]] >= mid} IN IF ge = {} THEN Len(ls) + 1 ELSE Min(ge)
LeftOf(ls, sp) == SubSeq(ls, 1, sp - 1)
RightOf(ls, sp) == SubSeq(ls, sp, Len(ls))

RECURSIVE TZ(_)                    \* bits.TrailingZeros64 (x > 0)
TZ(x) == IF x % 2 = 1 THEN 0 ELSE 1 + TZ(x \div 2)

\* forEachTree: leaves grouped by proof length, each group sorted; tree range from the first leaf.
\* Returns the sequence of [i, j, ls] in ascending height.
TreeOf(vis, I, P, h) ==
  LET ls == SortByIdx(SelectSeq(vis, LAMBDA s : Len(P[s]) = h), I) IN
  IF ls = <<>> THEN <<>>
  ELSE LET start == A!ClearBits(I[ls[1]], h + 1) IN <<[i |-> start, j |-> start + Pow2(h), ls |-> ls]>>
Trees(vis, I, P) == Concat([h1 \in 1..(MaxHt + 2) |-> TreeOf(vis, I, P, h1 - 1)])

\* multiproofSize
RECURSIVE ProofSize(_, _, _, _)
ProofSize(i, j, ls, I) ==
  LET height == TZ(j - i) IN
  IF ls = <<>> THEN 1
  ELSE IF height = 0 THEN 0
  ELSE LET mid == (i + j) \div 2
           sp  == SplitAt(ls, mid, I)
       IN ProofSize(i, mid, LeftOf(ls, sp), I) + ProofSize(mid, j, RightOf(ls, sp), I)
MultiproofSize(vis, I, P) ==
  LET ts == Trees(vis, I, P) IN Sum([k \in 1..Len(ts) |-> ProofSize(ts[k].i, ts[k].j, ts[k].ls, I)])

\* computeMultiproof
RECURSIVE CVisit(_, _, _, _, _)
CVisit(i, j, ls, I, P) ==
  LET height == TZ(j - i) IN
  IF height = 0 THEN <<>>
  ELSE LET mid   == (i + j) \div 2
           sp    == SplitAt(ls, mid, I)
           left  == LeftOf(ls, sp)
           right == RightOf(ls, sp)
       IN (IF left = <<>> THEN <<P[right[1]][height]>> ELSE CVisit(i, mid, left, I, P))
          \o (IF right = <<>> THEN <<P[left[1]][height]>> ELSE CVisit(mid, j, right, I, P))
ComputeMultiproof(vis, I, P) ==
  LET ts == Trees(vis, I, P) IN Concat([k \in 1..Len(ts) |-> CVisit(ts[k].i, ts[k].j, ts[k].ls, I, P)])

\* expandMultiproof: returns [root, P, rest]
InSeq(x, s) == \E k \in 1..Len(s) : s[k] = x
RECURSIVE EVisit(_, _, _, _, _, _)
EVisit(i, j, ls, I, P, mp) ==
  LET height == TZ(j - i) IN
  IF ls = <<>> THEN [root |-> Head(mp), P |-> P, rest |-> Tail(mp)]
  ELSE IF height = 0 THEN [root |-> LeafHashOf(I[ls[1]]), P |-> P, rest |-> mp]
  ELSE LET mid   == (i + j) \div 2
           sp    == SplitAt(ls, mid, I)
           left  == LeftOf(ls, sp)
           right == RightOf(ls, sp)
           l     == EVisit(i, mid, left, I, P, mp)
           r     == EVisit(mid, j, right, I, l.P, l.rest)
       IN [root |-> A!Node(l.root, r.root),
           P    |-> [s \in DOMAIN r.P |-> IF InSeq(s, right) THEN [r.P[s] EXCEPT ![height] = l.root]
                                          ELSE IF InSeq(s, left) THEN [r.P[s] EXCEPT ![height] = r.root]
                                          ELSE r.P[s]],
           rest |-> r.rest]
RECURSIVE ExpandTrees(_, _, _, _, _)
ExpandTrees(ts, k, I, P, mp) ==
  IF k > Len(ts) THEN [P |-> P, rest |-> mp]
  ELSE LET r == EVisit(ts[k].i, ts[k].j, ts[k].ls, I, P, mp) IN ExpandTrees(ts, k + 1, I, r.P, r.rest)
ExpandMultiproof(vis, I, P, mp) == ExpandTrees(Trees(vis, I, P), 1, I, P, mp)

\* EncodeTo: numLeaves |= LeafIndex &^ (n-1) | n  with n = 1 << len(proof); bit sets stand for the words
BitsOf(x) == {k \in 0..(MaxHt + 2) : A!HasTree(x, k)}
RECURSIVE FromBits(_)
FromBits(B) == IF B = {} THEN 0 ELSE LET k == Min(B) IN Pow2(k) + FromBits(B \ {k})
InferNumLeaves(vis, I, P) ==
  FromBits(UNION {BitsOf(A!ClearBits(I[vis[k]], Len(P[vis[k]]))) \cup {Len(P[vis[k]])} : k \in 1..Len(vis)})
\* DecodeFrom: proof length = bits.Len64(LeafIndex ^ numLeaves) - 1, refused when LeafIndex >= numLeaves
DecodedLen(idx, nl) == A!MergeHeight(idx, nl) - 1
Zero == "0"    \* the zero hash of a freshly made proof

-----------------------------------------------------------------------------
(* --------------------------- case generation ----------------------------- *)
\* leaf types: 0 siacoin element, 1 siafund element, 2 v2 file contract element, 3 chain index element
LeafType(n, i) == (i + n) % 4
RECURSIVE RefsOf(_, _, _, _)
RefsOf(n, m, ty, i) ==
  IF i = n THEN <<>>
  ELSE (IF LeafType(n, i) = ty THEN [k \in 1..m[i + 1] |-> i] ELSE <<>>) \o RefsOf(n, m, ty, i + 1)
RECURSIVE PickPos(_, _, _, _, _)
PickPos(seq, k, t, T, sh) ==
  IF k > Len(seq) THEN <<>>
  ELSE (IF (k + sh) % T = t - 1 THEN <<seq[k]>> ELSE <<>>) \o PickPos(seq, k + 1, t, T, sh)

Layout(n, m) ==
  LET tot == Sum(m)
      T   == 1 + ((n + tot) % 3)               \* number of transactions
      e   == ((n + tot) \div 3) % 3             \* ephemeral extras
      SC  == RefsOf(n, m, 0, 0)
      SF  == RefsOf(n, m, 1, 0)
      FC  == RefsOf(n, m, 2, 0)
      CI  == RefsOf(n, m, 3, 0)
      mn  == IF Len(FC) < Len(CI) THEN Len(FC) ELSE Len(CI)
      np  == (mn + 1) \div 2                    \* storage proofs whose contract and chain index are both real leaves
      restFC == SubSeq(FC, np + 1, Len(FC))
      revs == SelectSeq([j \in 1..Len(restFC) |-> IF (j + n) % 3 = 0 THEN restFC[j] ELSE -2], LAMBDA x : x # -2)
      ress == [j \in 1..np |-> [p |-> FC[j], k |-> 2, ci |-> CI[j]]]
              \o SelectSeq([j \in 1..Len(restFC) |-> IF (j + n) % 3 = 0 THEN [p |-> -2, k |-> 0, ci |-> -1]
                                                     ELSE [p |-> restFC[j], k |-> ((j + n) % 3) - 1, ci |-> -1]],
                           LAMBDA r : r.p # -2)
              \o [j \in 1..(Len(CI) - np) |-> [p |-> -1, k |-> 2, ci |-> CI[np + j]]]   \* ephemeral contract parent
  IN [t \in 1..T |->
        [sci |-> (IF e >= 1 /\ t = T THEN <<-1>> ELSE <<>>) \o PickPos(SC, 1, t, T, 0),
         sfi |-> PickPos(SF, 1, t, T, 1) \o (IF e = 2 /\ t = 1 THEN <<-1>> ELSE <<>>),
         rev |-> PickPos(revs, 1, t, T, 2) \o (IF e = 2 /\ t = T THEN <<-1>> ELSE <<>>),
         res |-> PickPos(ress, 1, t, T, 0)]]

\* Everything about one case, computed once.
Case(n, m) ==
  LET hs   == Hashes(n)
      txs  == Layout(n, m)
      I    == AllSlots(txs)
      vis  == Visited(I)
      S    == {I[vis[k]] : k \in 1..Len(vis)}
      P    == [s \in 1..Len(I) |-> IF I[s] = -1 THEN <<>> ELSE A!NaivePath(hs, I[s])]
      mp   == ComputeMultiproof(vis, I, P)
      def  == DefMultiproof(hs, S)
      size == MultiproofSize(vis, I, P)
      nl   == InferNumLeaves(vis, I, P)
      P0   == [s \in 1..Len(I) |-> IF I[s] = -1 THEN <<>> ELSE [k \in 1..DecodedLen(I[s], nl) |-> Zero]]
      size0 == MultiproofSize(vis, I, P0)
      ex   == ExpandMultiproof(vis, I, P0, mp)
  IN [n |-> n, m |-> m, txs |-> txs, slots |-> I, leaves |-> [k \in 1..Len(vis) |-> I[vis[k]]],
      numLeaves |-> nl, mp |-> mp, size |-> size,
      trees |-> Cardinality({Len(P[vis[k]]) : k \in 1..Len(vis)}),
      okSet      |-> \A i \in 0..(n - 1) : (m[i + 1] > 0) <=> (i \in S),
      okMult     |-> \A i \in 0..(n - 1) : Cardinality({k \in 1..Len(vis) : I[vis[k]] = i}) = m[i + 1],
      okCompute  |-> mp = def,
      okSize     |-> size = Len(mp) /\ size0 = Len(mp),
      okInfer    |-> /\ \A k \in 1..Len(vis) : I[vis[k]] < nl /\ DecodedLen(I[vis[k]], nl) = Len(P[vis[k]])
                     /\ BitsOf(nl) \subseteq BitsOf(n),
      okExpand   |-> ex.P = P /\ ex.rest = <<>>,
      okVerify   |-> \A k \in 1..Len(vis) :
                        LET s == vis[k] IN
                        A!FullRoot(LeafHashOf(I[s]), I[s], ex.P[s]) = A!NaiveRoot(hs, Len(ex.P[s]))]

Emit(r) == [n |-> r.n, m |-> r.m, txs |-> r.txs, slots |-> r.slots, leaves |-> r.leaves,
            numLeaves |-> r.numLeaves, mp |-> r.mp, size |-> r.size, trees |-> r.trees]
\* the forest of n leaves: leaf tokens, the individual proof of every leaf, the roots by height
Forest(n) == LET hs == Hashes(n) IN
  [n |-> n, leaves |-> hs, types |-> [i \in 1..n |-> LeafType(n, i - 1)],
   proofs |-> [i \in 1..n |-> A!NaivePath(hs, i - 1)],
   roots |-> [h1 \in 1..(MaxHt + 1) |-> IF A!HasTree(n, h1 - 1) THEN A!NaiveRoot(hs, h1 - 1) ELSE ""]]

VARIABLES plan, out
vars == <<plan, out>>
NoOut == [ph |-> 0]

Init ==
  /\ \E n \in MinN..MaxN : \E S \in SUBSET (1..n) : \E D \in (IF MaxDup = 0 THEN {{}} ELSE SUBSET S) :
        /\ S # {}
        /\ Cardinality(D) <= MaxDup
        /\ plan = [ph |-> 0, n |-> n, m |-> [i \in 1..n |-> IF i \in D THEN 2 ELSE IF i \in S THEN 1 ELSE 0]]
  /\ out = NoOut

First(n, m) == \A i \in 1..n : m[i] = (IF i = 1 THEN 1 ELSE 0)
Eval ==
  /\ plan.ph = 0
  /\ plan' = [plan EXCEPT !.ph = 1]
  /\ \E r \in {Case(plan.n, plan.m)} :
       /\ out' = [ph |-> 1, okSet |-> r.okSet, okMult |-> r.okMult, okCompute |-> r.okCompute, okSize |-> r.okSize,
                  okInfer |-> r.okInfer, okExpand |-> r.okExpand, okVerify |-> r.okVerify]
       /\ PrintT("@@CASE " \o ToJson(Emit(r)))
       /\ (First(plan.n, plan.m) => PrintT("@@FOREST " \o ToJson(Forest(plan.n))))

Next == Eval
Spec == Init /\ [][Next]_vars

-----------------------------------------------------------------------------
(* ------------------------------ invariants ------------------------------- *)
Done == out.ph = 1
LayoutFaithful  == Done => out.okSet /\ out.okMult      \* the transaction set references exactly the chosen multiset
ComputeIsDefinition == Done => out.okCompute            \* computeMultiproof = maximal disjoint subtree roots
SizeExact       == Done => out.okSize                   \* multiproofSize, before and after the proofs are stripped
InferenceSound  == Done => out.okInfer                  \* inferred numLeaves recovers every proof length
ExpandRestores  == Done => out.okExpand                 \* expand(compute) = every individual proof, multiproof used up
RestoredVerify  == Done => out.okVerify                 \* and every restored proof folds to its tree's root
=============================================================================
