\* Property C04, cross-check configuration: small forests (n0 <= 3, k <= 2) with the concrete probes
\* printed (leaf pre-image, leaf index, proof terms); the harness compares its own reading of every
\* mutation of the catalogue with them (text of the leaf, index, every proof entry evaluated with the
\* real hash functions).
SPECIFICATION MSpec
CONSTANTS
  MaxH = 2
  MaxAdd = 2
  MaxLeaves = 6
  MinInit = 0
  MaxInit = 3
  MaxUndo = 2
  NF = 2
  Modes = {0, 1}
  Full = TRUE
INVARIANTS CountMatches RootsMatchNaive ProofsMatchNaive MemberSound SupplementSound HistorySound CarrierSound KindsDisjoint ReuseSound TxnSound
CHECK_DEADLOCK FALSE
