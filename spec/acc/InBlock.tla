------------------------------- MODULE InBlock -------------------------------
(* Property C04, parents that are NOT in the accumulator: elements created by
   earlier transactions of the block under validation ("ephemeral" parents of v2
   inputs, carried with LeafIndex = UnassignedLeafIndex; in-block parents of v1
   inputs, revisions and proofs, named by ID only).

   Such a parent is acceptable only if exactly that element was created earlier
   in this block, by the rule of its kind:

     v2 siacoin input   (from EphemeralOutputHeight on)  the ID, the output and the
                        maturity height are those of a siacoin output created
                        earlier in the block, unspent and mature
     v2 siafund input   (from EphemeralOutputHeight on)  never
     v2 contract parent never (a v2 contract cannot be revised or resolved in the
                        block that creates it: its parent must be in the accumulator)
     v1 siacoin / siafund input, v1 revision
                        the ID is that of an element OF THAT KIND created earlier in
                        the block, unspent (and, for siacoins, mature); the
                        transaction must balance against that element's contents

   Mechanism (transcription of consensus.MidState): the block keeps one list of
   diffs per kind (siacoin, siafund, contract, attestation) and ONE map
   elements : id -> index  shared by all kinds.  The creating transaction spends a
   siacoin parent (entry 0 of the siacoin list: recorded, not created), creates
   nsc siacoin outputs, optionally spends a siafund parent (entry 0 of the siafund
   list; its claim output becomes a further, immature siacoin entry) and creates
   nsf siafund outputs, nfc contracts and natt attestations.  A lookup by ID must
   therefore make sure that the index it gets refers to an entry of the right list
   WITH THAT ID; the invariant Sound states that the transcribed lookups accept
   exactly what the definitions allow, for every shape within the bounds and every
   probe: every ID known to the block (of every kind) and a fresh one, combined
   with the contents of every created entry of the asked kind (and altered
   contents, and an altered maturity height).

   Every shape prints   @@IB {"nsc":..,"nsf":..,"nfc":..,"natt":..,"cases":[d,...]}
   with  d = <door>:<kind of the id>:<its index>:<index of the copied contents,
   99 = altered>:<maturity tweak>:<expected 0/1>;  the harness builds the same
   block prefix on the real code and presents every probe.                  *)
EXTENDS Integers, Sequences, FiniteSets, TLC, Json

CONSTANTS MaxSC, MaxSF, MaxFC, MaxATT
VARIABLE shape

Base(kind) == CASE kind = "sc" -> 100 [] kind = "sf" -> 200 [] kind = "fc" -> 300 [] kind = "att" -> 400
Fresh == 999
Altered == 99

\* per-kind lists (index -> entry), as the creating transaction leaves them
ScList(s)  == [j \in 0..(s.nsc + (IF s.nsf > 0 THEN 1 ELSE 0)) |->
                 [id |-> 100 + j, created |-> j > 0, spent |-> j = 0, body |-> j, mature |-> j <= s.nsc]]
SfList(s)  == IF s.nsf = 0 THEN [j \in {} |-> 0]
              ELSE [j \in 0..s.nsf |-> [id |-> 200 + j, created |-> j > 0, spent |-> j = 0, body |-> j, mature |-> TRUE]]
FcList(s)  == [j \in 0..(s.nfc - 1) |-> [id |-> 300 + j, created |-> TRUE, spent |-> FALSE, body |-> j, mature |-> TRUE]]
AttList(s) == [j \in 0..(s.natt - 1) |-> [id |-> 400 + j, created |-> TRUE, spent |-> FALSE, body |-> j, mature |-> TRUE]]
List(s, kind) == CASE kind = "sc" -> ScList(s) [] kind = "sf" -> SfList(s) [] kind = "fc" -> FcList(s) [] kind = "att" -> AttList(s)
Kinds == {"sc", "sf", "fc", "att"}

\* the shared map id -> index
Ids(s) == UNION {{List(s, k)[j].id : j \in DOMAIN List(s, k)} : k \in Kinds}
Elements(s) == [id \in Ids(s) |-> id % 100]
SpentIds(s) == UNION {{List(s, k)[j].id : j \in {x \in DOMAIN List(s, k) : List(s, k)[x].spent}} : k \in {"sc", "sf"}}

\* ------------------------------- definitions --------------------------------
\* probe: [door, idk, idj, id, body, mat]
CreatedOf(s, kind) == {j \in DOMAIN List(s, kind) : List(s, kind)[j].created /\ ~List(s, kind)[j].spent}
OK(s, p) ==
  CASE p.door = "v2sc" -> \E j \in CreatedOf(s, "sc") : ScList(s)[j].mature /\ ScList(s)[j].id = p.id /\ p.body = j /\ p.mat = 0
    [] p.door = "v2sf" -> FALSE
    [] p.door = "v2fc" -> FALSE
    [] p.door = "v1sc" -> \E j \in CreatedOf(s, "sc") : ScList(s)[j].mature /\ ScList(s)[j].id = p.id /\ p.body = j
    [] p.door = "v1sf" -> \E j \in CreatedOf(s, "sf") : SfList(s)[j].id = p.id /\ p.body = j
    [] p.door = "v1fc" -> \E j \in CreatedOf(s, "fc") : FcList(s)[j].id = p.id /\ p.body = j

\* -------------------------------- mechanism ---------------------------------
\* validateEphemeralSiacoinElement (from EphemeralOutputHeight on), after the double-spend and maturity tests
MechV2SC(s, p) ==
  /\ p.id \notin SpentIds(s)
  /\ p.id \in Ids(s)
  /\ LET j == Elements(s)[p.id] IN
       /\ j \in DOMAIN ScList(s)
       /\ ScList(s)[j].created
       /\ ScList(s)[j].id = p.id                 \* the index may belong to a list of another kind
       /\ p.body = ScList(s)[j].body /\ p.body # Altered
       /\ p.mat = 0
\* MidState.siacoinElement / siafundElement / fileContractElement + the balance of the spending transaction
MechV1(s, kind, p) ==
  /\ p.id \notin SpentIds(s)
  /\ p.id \in Ids(s)
  /\ LET j == Elements(s)[p.id]  L == List(s, kind) IN
       /\ j \in DOMAIN L
       /\ L[j].id = p.id
       /\ L[j].mature
       /\ p.body = L[j].body
Mech(s, p) ==
  CASE p.door = "v2sc" -> MechV2SC(s, p)
    [] p.door = "v2sf" -> FALSE      \* found and created: "spends ephemeral output"; otherwise nonexistent
    [] p.door = "v2fc" -> FALSE      \* an element with an unassigned leaf index is no member of any forest
    [] p.door = "v1sc" -> MechV1(s, "sc", p)
    [] p.door = "v1sf" -> MechV1(s, "sf", p)
    [] p.door = "v1fc" -> MechV1(s, "fc", p)

\* --------------------------------- probes -----------------------------------
IdSources(s) == {src \in Kinds \X (0..(MaxSC + 1)) : src[2] \in DOMAIN List(s, src[1])}
KindOfDoor(d) == CASE d \in {"v2sc", "v1sc"} -> "sc" [] d \in {"v2sf", "v1sf"} -> "sf" [] d \in {"v2fc", "v1fc"} -> "fc"
\* contents that can be copied: those of the created, unspent, mature entries of the asked kind
Bodies(s, d) == {j \in CreatedOf(s, KindOfDoor(d)) : List(s, KindOfDoor(d))[j].mature} \cup {Altered}
Doors == {"v2sc", "v2sf", "v2fc", "v1sc", "v1sf", "v1fc"}
ProbesOfDoor(s, d) ==
  {[door |-> d, idk |-> src[1], idj |-> src[2], id |-> Base(src[1]) + src[2], body |-> b, mat |-> m] :
     src \in IdSources(s), b \in Bodies(s, d), m \in {0, 1}}
  \cup {[door |-> d, idk |-> "fresh", idj |-> 0, id |-> Fresh, body |-> b, mat |-> 0] : b \in Bodies(s, d)}
Probes(s) == UNION {ProbesOfDoor(s, d) : d \in Doors}
\* (the maturity tweak only exists for the v2 siacoin door)
Relevant(p) == p.mat = 0 \/ p.door = "v2sc"

Desc(p, x) == p.door \o ":" \o p.idk \o ":" \o ToString(p.idj) \o ":" \o ToString(p.body) \o ":" \o ToString(p.mat)
              \o ":" \o (IF x THEN "1" ELSE "0")

Sound ==
  \A ps \in {{p \in Probes(shape) : Relevant(p)}} :
    /\ \A p \in ps : Mech(shape, p) <=> OK(shape, p)
    /\ PrintT("@@IB " \o ToJson([nsc |-> shape.nsc, nsf |-> shape.nsf, nfc |-> shape.nfc, natt |-> shape.natt,
                                 cases |-> {Desc(p, OK(shape, p)) : p \in ps}]))

Init == shape \in [nsc : 1..MaxSC, nsf : {0, MaxSF}, nfc : 0..MaxFC, natt : 0..MaxATT]
Next == UNCHANGED shape
Spec == Init /\ [][Next]_shape
=============================================================================
