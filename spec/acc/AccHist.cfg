\* -simulate: histories of Depth steps; forests up to 40 leaves (tree heights 0..5)
SPECIFICATION HSpec
CONSTANTS
  MaxH = 5
  MaxAdd = 5
  MaxLeaves = 40
  MaxInit = 17
  MaxUndo = 12
  Depth = 12
  MaxUpd = 4
INVARIANTS CountMatches RootsMatchNaive ProofsMatchNaive ProofsVerify
PROPERTIES RevertRestores
CHECK_DEADLOCK FALSE
