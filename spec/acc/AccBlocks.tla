------------------------------ MODULE AccBlocks ------------------------------
(* C05, block level: which leaves a BLOCK gives the accumulator, and with which flags.

   Accumulator.tla takes a block as (U, k): a set of existing leaves toggled and k fresh,
   unspent leaves.  Real blocks are richer: consensus/application.go collects one diff per
   element the block touched (created / spent / revised / resolved, all four combinable
   within one block) and forEachAppliedElement turns every diff into ONE leaf:

        existing element touched        -> updated leaf  (flags and contents as after the block)
        element created by the block    -> added leaf, WITH THE FLAGS THE DIFF REPORTS:
              an output created and spent in the same block (ephemeral)   enters SPENT,
              a v1 contract formed and proved in the same block           enters RESOLVED,
              a v1 contract formed and revised in the same block          enters as revised

   in the order  siacoin diffs, siafund diffs, v1 contracts, v2 contracts, attestations,
   chain index; inside a kind in the order in which the block first touched the elements.

   This module models the block: abstract transactions (v1 and v2) over the elements of
   the forest and over the elements created earlier in the same block, the diff list they
   leave (the MidState of application.go: ApplyTransaction, ApplyV2Transaction, the miner
   payout, the expiring v1 contracts of the supplement), and the leaves this yields.  The
   leaves go through the algorithm layer of Accumulator.tla (ApplyBlock with explicit
   hashes of the added leaves); the Accumulator invariants -- roots, count and every
   client proof equal the naive forest over the true leaves (meta) -- are checked on every
   sealed state, and Revert is Accumulator!Revert unchanged.

   The model knows WHICH elements a transaction creates, spends, revises and resolves and
   in which order; it does not know amounts (the harness funds the transactions).  What
   is allowed follows consensus/validation.go:
     - an output is spendable when it is unspent, mature, and not spent earlier in the block;
       outputs created by earlier transactions of the block are spendable at once
       (ephemeral); v1 transactions precede v2 transactions, so a v2 transaction may spend
       an output a v1 transaction of the block created; ephemeral SIAFUND outputs in v2
       transactions only below HardforkV2.EphemeralOutputHeight (EphH);
     - claim outputs, contract payouts and the miner payout mature MatDelay blocks later;
     - a v1 contract can be revised while child height <= WindowStart, also in the block that
       forms it, also twice; it can be proved in [WindowStart, WindowEnd], in the forming
       or revising block when WindowStart = child height; unproved contracts are resolved
       (missed) by the block at height WindowEnd through the supplement;
     - a v2 contract must be in the accumulator to be revised or resolved (never in the
       forming block); it can be revised while child height <= ProofHeight (also twice in
       a block), expired after ExpirationHeight, renewed at any time (also after a
       revision in the same block); a renewal creates the new contract.

   Two uses (constant Exhaustive):
     FALSE  -simulate: histories of Depth blocks/reverts; choices drawn with RandomElement;
     TRUE   exhaustive: every block of <= MaxTx transactions on the genesis forest, then
            its revert (one behaviour per block).
   A finished behaviour is printed as  @@BLK [step, step, ...].                           *)
EXTENDS Accumulator, Json, Randomization

CONSTANTS Depth,       \* steps (sealed blocks and reverts) per behaviour
          MaxTx,       \* transactions per block
          MatDelay,    \* Network.MaturityDelay
          EphH,        \* Network.HardforkV2.EphemeralOutputHeight
          Exhaustive,  \* see above
          GenSC, GenSF, GenFC   \* sets: numbers of siacoin / siafund outputs / v1 contracts in the genesis block

VARIABLES mid,   \* the block under construction (MidState)
          hist   \* the behaviour so far, one step per sealed block / revert
bvars == <<meta, acc, client, blk, undo, mid, hist>>

None == 0 - 1
Ref(t, o) == [t |-> t, o |-> o]     \* t = 0: leaf index o of the forest;  t >= 1: o-th output of that kind of the t-th transaction of this block
NoRef == Ref(None, 0)
KindCode(k) == CASE k = "sc" -> 1 [] k = "sf" -> 2 [] k = "fc" -> 3 [] k = "v2" -> 4 [] k = "at" -> 5 [] k = "ci" -> 6

\* truth about one leaf: the fields of Accumulator.meta plus kind and what enabling conditions need
\* (mat: maturity height; ws/we: WindowStart/WindowEnd resp. ProofHeight/ExpirationHeight;
\*  nv/nm: numbers of valid / missed proof outputs -- for a siafund output nv is log2 of its value: v1
\*  transactions cannot create siafund outputs above 10 000, so an output can be halved nv times only;
\*  for a siacoin output nm = 1 marks a siafund claim output (possibly of value zero: never spent by the model);
\*  h: height, for chain index elements)
El(id, k, spent, mat, ws, we, nv, nm, h) ==
  [id |-> id, ver |-> 0, spent |-> spent, k |-> k, mat |-> mat, ws |-> ws, we |-> we, nv |-> nv, nm |-> nm, h |-> h]

\* one element diff of the MidState.  leaf = None: created by this block.
Diff(k, leaf, t, o, spent, rev, mat, ws, we, nv, nm) ==
  [k |-> k, leaf |-> leaf, t |-> t, o |-> o, spent |-> spent, rev |-> rev, mat |-> mat, ws |-> ws, we |-> we, nv |-> nv, nm |-> nm]

Tx(v, op, ins, nout, c, nsf, ws, we, nv, nm, natt) ==
  [v |-> v, op |-> op, ins |-> ins, nout |-> nout, c |-> c, nsf |-> nsf, ws |-> ws, we |-> we, nv |-> nv, nm |-> nm, natt |-> natt]

Height == meta[Len(meta)].h        \* the last leaf is always the chain index element of the tip
Child  == Height + 1
Closed == [open |-> FALSE, bv |-> 1, v2 |-> FALSE, txs |-> <<>>, d |-> <<>>, natt |-> 0]

Min2(a, b) == IF a < b THEN a ELSE b
\* a choice: everything (exhaustive) or one random element
Ch(S) == IF Exhaustive THEN S ELSE IF S = {} THEN {} ELSE {RandomElement(S)}
ChSub(sz, S) == IF Exhaustive THEN {T \in SUBSET S : Cardinality(T) = sz} ELSE {RandomSubset(sz, S)}

RefKey(r) == r.t * 100000 + r.o
RECURSIVE SeqOfRefs(_)
SeqOfRefs(S) == IF S = {} THEN <<>>
                ELSE LET m == CHOOSE r \in S : \A q \in S : RefKey(r) <= RefKey(q) IN <<m>> \o SeqOfRefs(S \ {m})
RECURSIVE SeqOfInts(_)
SeqOfInts(S) == IF S = {} THEN <<>> ELSE LET m == Min(S) IN <<m>> \o SeqOfInts(S \ {m})

-----------------------------------------------------------------------------
(* ------------------------------ the MidState ------------------------------ *)
IdxOf(d, k, r) == CHOOSE j \in 1..Len(d) : d[j].k = k /\ d[j].leaf = None /\ d[j].t = r.t /\ d[j].o = r.o
LeafDiffs(d, i) == {j \in 1..Len(d) : d[j].leaf = i}
SpentInBlock(d, i) == \E j \in LeafDiffs(d, i) : d[j].spent
\* the contract behind a reference (both records carry ws, we, nv, nm)
CAttr(d, k, r) == IF r.t = 0 THEN meta[r.o + 1] ELSE d[IdxOf(d, k, r)]

\* spendSiacoinElement / spendSiafundElement
SpendRef(d, k, r) ==
  IF r.t = 0 THEN Append(d, Diff(k, r.o, 0, 0, TRUE, FALSE, 0, 0, 0, 0, 0))
  ELSE [d EXCEPT ![IdxOf(d, k, r)].spent = TRUE]
RECURSIVE SpendAll(_, _, _, _)
SpendAll(d, k, rs, i) == IF i > Len(rs) THEN d ELSE SpendAll(SpendRef(d, k, rs[i]), k, rs, i + 1)
\* reviseFileContractElement / reviseV2FileContractElement
ReviseRef(d, k, r) ==
  IF r.t = 0 THEN
    IF LeafDiffs(d, r.o) = {} THEN Append(d, Diff(k, r.o, 0, 0, FALSE, TRUE, 0, 0, 0, 0, 0))
    ELSE [d EXCEPT ![CHOOSE j \in LeafDiffs(d, r.o) : TRUE].rev = TRUE]
  ELSE [d EXCEPT ![IdxOf(d, k, r)].rev = TRUE]
\* resolveFileContractElement / resolveV2FileContractElement
ResolveRef(d, k, r) ==
  IF r.t = 0 THEN
    IF LeafDiffs(d, r.o) = {} THEN Append(d, Diff(k, r.o, 0, 0, TRUE, FALSE, 0, 0, 0, 0, 0))
    ELSE [d EXCEPT ![CHOOSE j \in LeafDiffs(d, r.o) : TRUE].spent = TRUE]
  ELSE [d EXCEPT ![IdxOf(d, k, r)].spent = TRUE]
\* createSiacoinElement / createSiafundElement for the outputs of transaction ti
NewOuts(d, k, ti, n, q) == d \o [j \in 1..n |-> Diff(k, None, ti, j - 1, FALSE, FALSE, 0, 0, 0, q, 0)]
\* createImmatureSiacoinElement: claims, contract payouts, miner payout (nothing in the block can refer to them)
Immature(d, n) == d \o [j \in 1..n |-> Diff("sc", None, 0, 0, FALSE, FALSE, Child + MatDelay, 0, 0, 0, 0)]
\* a siafund claim output: its value may be zero (no contract tax since ClaimStart), so no transaction of the
\* model spends it (nm = 1 marks it)
Claim(d) == Append(d, Diff("sc", None, 0, 0, FALSE, FALSE, Child + MatDelay, 0, 0, 0, 1))

\* ApplyTransaction / ApplyV2Transaction of the ti-th transaction
TxEffect(d, tx, ti) ==
  LET d1 == SpendAll(d, "sc", tx.ins, 1)
      d2 == NewOuts(d1, "sc", ti, tx.nout, 0)
      ck == IF tx.v = 1 THEN "fc" ELSE "v2"
  IN CASE tx.op = "sc"     -> d2
       [] tx.op = "sf"     -> NewOuts(Claim(SpendRef(d2, "sf", tx.c)), "sf", ti, tx.nsf,
                                      CAttr(d2, "sf", tx.c).nv - (tx.nsf - 1))
       [] tx.op = "form"   -> Append(d2, Diff(ck, None, ti, 0, FALSE, FALSE, 0, tx.ws, tx.we, tx.nv, tx.nm))
       [] tx.op = "rev"    -> ReviseRef(d2, ck, tx.c)
       [] tx.op = "prove"  -> Immature(ResolveRef(d2, "fc", tx.c), CAttr(d2, "fc", tx.c).nv)
       [] tx.op = "expire" -> Immature(ResolveRef(d2, "v2", tx.c), 2)
       [] tx.op = "renew"  -> Immature(Append(ResolveRef(d2, "v2", tx.c),
                                              Diff("v2", None, 0, 0, FALSE, FALSE, 0, tx.ws, tx.we, 0, 0)), 2)

-----------------------------------------------------------------------------
(* ------------------- what a transaction may refer to ---------------------- *)
Leaves(k) == {i \in 0..(Len(meta) - 1) : meta[i + 1].k = k /\ ~meta[i + 1].spent}
InBlock(k) == {j \in 1..Len(mid.d) : mid.d[j].k = k /\ mid.d[j].leaf = None /\ mid.d[j].t > 0 /\ ~mid.d[j].spent}

ScAvail == {Ref(0, i) : i \in {i \in Leaves("sc") : meta[i + 1].mat <= Child /\ meta[i + 1].nm = 0 /\ LeafDiffs(mid.d, i) = {}}}
           \cup {Ref(mid.d[j].t, mid.d[j].o) : j \in InBlock("sc")}
SfAvail(v) == {Ref(0, i) : i \in {i \in Leaves("sf") : LeafDiffs(mid.d, i) = {}}}
              \cup (IF v = 1 \/ Child < EphH THEN {Ref(mid.d[j].t, mid.d[j].o) : j \in InBlock("sf")} ELSE {})
FcRevisable == {Ref(0, i) : i \in {i \in Leaves("fc") : meta[i + 1].ws >= Child /\ ~SpentInBlock(mid.d, i)}}
               \cup {Ref(mid.d[j].t, mid.d[j].o) : j \in InBlock("fc")}
FcProvable == {Ref(0, i) : i \in {i \in Leaves("fc") : meta[i + 1].ws <= Child /\ Child <= meta[i + 1].we /\ ~SpentInBlock(mid.d, i)}}
              \cup {Ref(mid.d[j].t, mid.d[j].o) : j \in {j \in InBlock("fc") : mid.d[j].ws = Child}}
V2Revisable == {Ref(0, i) : i \in {i \in Leaves("v2") : meta[i + 1].ws >= Child /\ ~SpentInBlock(mid.d, i)}}
V2Expirable == {Ref(0, i) : i \in {i \in Leaves("v2") : Child > meta[i + 1].we /\ ~SpentInBlock(mid.d, i)}}
V2Renewable == {Ref(0, i) : i \in {i \in Leaves("v2") : ~SpentInBlock(mid.d, i)}}

\* candidate transactions of version v and kind op (a set; empty when the kind is not enabled)
Cand(v, op) ==
  CASE op = "sc" ->
         IF ScAvail = {} THEN {}
         ELSE UNION {{Tx(v, "sc", SeqOfRefs(S), nout, NoRef, 0, 0, 0, 0, 0, natt) :
                        S \in ChSub(sz, ScAvail), nout \in Ch(1..(IF Exhaustive THEN 2 ELSE 3)),
                        natt \in Ch(IF v = 2 THEN 0..1 ELSE {0})}
                     : sz \in Ch(1..Min2(IF Exhaustive THEN 2 ELSE 3, Cardinality(ScAvail)))}
    [] op = "sf" ->
         UNION {{Tx(v, "sf", <<>>, 0, c, nsf, 0, 0, 0, 0, 0) :
                    nsf \in Ch(1..(IF CAttr(mid.d, "sf", c).nv >= 1 THEN 2 ELSE 1))} : c \in Ch(SfAvail(v))}
    [] op = "form" ->
         {Tx(v, "form", <<r>>, 1, NoRef, 0, Child + a, Child + a + b, IF v = 1 THEN nv ELSE 0, IF v = 1 THEN nm ELSE 0, 0) :
            r \in Ch(ScAvail), a \in Ch(0..(IF Exhaustive THEN 1 ELSE 2)), b \in Ch(1..(IF Exhaustive THEN 1 ELSE 2)),
            nv \in Ch(1..2), nm \in Ch(IF Exhaustive THEN {1} ELSE 1..2)}
    [] op = "rev" ->
         {Tx(v, "rev", <<>>, 0, c, 0, 0, 0, 0, 0, 0) : c \in Ch(IF v = 1 THEN FcRevisable ELSE V2Revisable)}
    [] op = "prove" ->
         {Tx(1, "prove", <<>>, 0, c, 0, 0, 0, 0, 0, 0) : c \in Ch(FcProvable)}
    [] op = "expire" ->
         {Tx(2, "expire", <<>>, 0, c, 0, 0, 0, 0, 0, 0) : c \in Ch(V2Expirable)}
    [] op = "renew" ->
         {Tx(2, "renew", <<r>>, 1, c, 0, Child + a, Child + a + 1, 0, 0, 0) :
            r \in Ch(ScAvail), c \in Ch(V2Renewable), a \in Ch(0..1)}

Ops(v) == IF v = 1 THEN {"sc", "sf", "form", "rev", "prove"} ELSE {"sc", "sf", "form", "rev", "expire", "renew"}
\* v1 transactions precede the v2 transactions of a block; a v1 block has no v2 part
Versions == (IF mid.v2 THEN {} ELSE {1}) \cup (IF mid.bv = 2 THEN {2} ELSE {})

-----------------------------------------------------------------------------
(* -------------------------------- sealing --------------------------------- *)
\* ApplyBlockH = Accumulator!ApplyBlock with the hashes of the added leaves given (they enter with
\* the flags of their diffs, not necessarily unspent)
RECURSIVE AddLeavesRecH(_, _, _)
AddLeavesRecH(st, i, hs) == IF i = Len(hs) THEN st ELSE AddLeavesRecH(AddOne(st, i, hs[i + 1]), i + 1, hs)
AddLeavesH(n, trees, hs) ==
  AddLeavesRecH([n |-> n, trees |-> trees, AP |-> [j \in 0..(Len(hs) - 1) |-> <<>>],
                 growth |-> [b \in 0..MaxH |-> <<>>], init |-> n], 0, hs)
ApplyBlockH(a, U, H, P0, hs) ==
  LET P1  == UpdateLeaves(U, H, P0)
      tr1 == [h \in 0..MaxH |->
                LET ls == {x \in U : Len(P1[x]) = h} IN
                IF ls = {} THEN a.trees[h] ELSE FullRoot(H[Min(ls)], Min(ls), P1[Min(ls)])]
      st  == AddLeavesH(a.n, tr1, hs)
  IN [acc   |-> [n |-> st.n, trees |-> st.trees],
      eau   |-> [U |-> U, H |-> H, ht |-> [x \in U |-> Len(P1[x])],
                 P  |-> [x \in U |-> P1[x] \o st.growth[Len(P1[x])]],
                 growth |-> st.growth, oldN |-> a.n, newN |-> st.n],
      added |-> st.AP]

\* v1 contracts the supplement lists as expiring: live, WindowEnd = child height, not proved in this block
Expiring == SeqOfInts({i \in Leaves("fc") : meta[i + 1].we = Child /\ ~SpentInBlock(mid.d, i)})
RECURSIVE ExpireAll(_, _, _)
ExpireAll(d, es, i) ==
  IF i > Len(es) THEN d
  ELSE ExpireAll(Immature(ResolveRef(d, "fc", Ref(0, es[i])), meta[es[i] + 1].nm), es, i + 1)

\* the complete diff list of the block: transactions, miner payout, expiring contracts
BlockDiffs == ExpireAll(Immature(mid.d, 1), Expiring, 1)

SealRes ==
  LET n0 == acc.n
      d  == BlockDiffs
      U  == {d[j].leaf : j \in 1..Len(d)} \ {None}
      DOf(i) == d[CHOOSE j \in 1..Len(d) : d[j].leaf = i]
      m1 == [i \in 1..Len(meta) |->
               IF (i - 1) \in U
               THEN [meta[i] EXCEPT !.spent = DOf(i - 1).spent, !.ver = @ + (IF DOf(i - 1).rev THEN 1 ELSE 0)]
               ELSE meta[i]]
      Created(k) == SelectSeq(d, LAMBDA x : x.leaf = None /\ x.k = k)
      cr == Created("sc") \o Created("sf") \o Created("fc") \o Created("v2")
      K  == Len(cr) + mid.natt + 1
      new == [j \in 1..K |->
                IF j <= Len(cr) THEN El(n0 + j - 1, cr[j].k, cr[j].spent, cr[j].mat, cr[j].ws, cr[j].we, cr[j].nv, cr[j].nm, 0)
                ELSE IF j < K THEN El(n0 + j - 1, "at", FALSE, 0, 0, 0, 0, 0, 0)
                ELSE El(n0 + j - 1, "ci", FALSE, 0, 0, 0, 0, 0, Child)]
      H  == [x \in U |-> LeafHash(m1[x + 1].id, m1[x + 1].ver, x, m1[x + 1].spent)]
      hs == [j \in 1..K |-> LeafHash(new[j].id, 0, n0 + j - 1, new[j].spent)]
      r  == ApplyBlockH(acc, U, H, [x \in U |-> client[x]], hs)
  IN [meta |-> m1 \o new, acc |-> r.acc, U |-> U, K |-> K,
      client |-> [i \in 0..(r.acc.n - 1) |->
                    IF i < n0 THEN UpdateElementProofApply(r.eau, [idx |-> i, proof |-> client[i]])
                    ELSE r.added[i - n0]],
      blk |-> r.eau.P]

-----------------------------------------------------------------------------
(* ------------------------ what the harness receives ------------------------ *)
BSnap(m, a, c) ==
  [n      |-> a.n,
   trees  |-> [h \in 1..(MaxH + 1) |-> IF HasTree(a.n, h - 1) THEN a.trees[h - 1] ELSE ""],
   proofs |-> [i \in 1..a.n |-> c[i - 1]],
   meta   |-> [i \in 1..Len(m) |-> <<m[i].id, m[i].ver, IF m[i].spent THEN 1 ELSE 0, KindCode(m[i].k),
                                      m[i].mat, m[i].ws, m[i].we, m[i].nv, m[i].nm, m[i].h>>]]
BStep(op, b, exp, m, a, c) ==
  [op |-> op, bv |-> b.bv, txs |-> b.txs, natt |-> b.natt, exp |-> exp, s |-> BSnap(m, a, c)]

-----------------------------------------------------------------------------
(* ------------------------------- behaviour -------------------------------- *)
\* genesis: a v1 block with one transaction creating gsc siacoin outputs, gsf siafund outputs and
\* gfc v1 contracts (window [2,3], one valid and one missed output), and the chain index element
GenesisMeta(gsc, gsf, gfc) ==
  [i \in 1..(gsc + gsf + gfc + 1) |->
     IF i <= gsc THEN El(i - 1, "sc", FALSE, 0, 0, 0, 0, 0, 0)
     ELSE IF i <= gsc + gsf THEN El(i - 1, "sf", FALSE, 0, 0, 0, 13, 0, 0)
     ELSE IF i <= gsc + gsf + gfc THEN El(i - 1, "fc", FALSE, 0, 2, 3, 1, 1, 0)
     ELSE El(i - 1, "ci", FALSE, 0, 0, 0, 0, 0, 0)]

BInit ==
  /\ \E gsc \in GenSC, gsf \in GenSF, gfc \in GenFC : meta = GenesisMeta(gsc, gsf, gfc)
  /\ acc = [n |-> Len(meta), trees |-> NaiveRoots(HashesOf(meta))]
  /\ client = [i \in 0..(Len(meta) - 1) |-> NaivePath(HashesOf(meta), i)]
  /\ blk = NoProofs /\ undo = <<>> /\ mid = Closed
  /\ hist = <<BStep("init", Closed, <<>>, meta, acc, client)>>

Running == Len(hist) \in 1..Depth

\* a block adds at most 4 leaves per transaction, the payout, the chain index element and the
\* missed outputs of expiring contracts
Open(bv) ==
  /\ ~mid.open /\ Running
  /\ Len(undo) < MaxUndo
  /\ acc.n + 4 * MaxTx + 8 <= MaxLeaves
  /\ mid' = [Closed EXCEPT !.open = TRUE, !.bv = bv]
  /\ UNCHANGED <<meta, acc, client, blk, undo, hist>>

AddTx ==
  /\ mid.open /\ Len(mid.txs) < MaxTx
  /\ \E draw \in (IF Exhaustive THEN {1} ELSE 1..3) :
       \E v \in Ch(Versions) : \E op \in Ch(Ops(v)) : \E tx \in Cand(v, op) :
          mid' = [mid EXCEPT !.txs = Append(@, tx), !.v2 = (v = 2),
                             !.d = TxEffect(@, tx, Len(mid.txs) + 1), !.natt = @ + tx.natt]
  /\ UNCHANGED <<meta, acc, client, blk, undo, hist>>

Seal ==
  /\ mid.open
  /\ \E r \in {SealRes} :
       /\ r.acc.n <= MaxLeaves
       /\ meta' = r.meta /\ acc' = r.acc /\ client' = r.client /\ blk' = r.blk
       /\ undo' = <<[meta |-> meta, acc |-> acc, client |-> client, U |-> r.U]>> \o undo
       /\ hist' = Append(hist, BStep("block", mid, Expiring, r.meta, r.acc, r.client))
  /\ mid' = Closed

BRevert ==
  /\ ~mid.open /\ Running
  /\ Revert
  /\ hist' = Append(hist, BStep("revert", Closed, <<>>, meta', acc', client'))
  /\ UNCHANGED mid

BDone ==
  /\ Len(hist) = Depth + 1
  /\ PrintT("@@BLK " \o ToJson(hist))
  /\ hist' = <<>>
  /\ UNCHANGED <<meta, acc, client, blk, undo, mid>>

\* exhaustive: one block, then its revert.  simulate: blocks twice as likely v2 as v1, a quarter reverts.
BNext ==
  IF Exhaustive
  THEN \/ Len(hist) = 1 /\ (Open(1) \/ Open(2) \/ AddTx \/ Seal)
       \/ Len(hist) = 2 /\ BRevert
       \/ BDone
  ELSE \/ Open(1) \/ (\E draw \in 1..2 : Open(2)) \/ BRevert
       \/ AddTx \/ Seal
       \/ BDone
BSpec == BInit /\ [][BNext]_bvars

-----------------------------------------------------------------------------
(* ------------------------------- invariants ------------------------------- *)
\* (evaluated on sealed states only: while a block is open the forest does not change)
BCount  == mid.open \/ CountMatches
BRoots  == mid.open \/ RootsMatchNaive
BProofs == mid.open \/ ProofsMatchNaive
BVerify == mid.open \/ ProofsVerify
\* the model's own sanity: an element created by the block and spent in it is an added, spent leaf;
\* nothing is spent twice; the tip is a chain index element
BSane ==
  /\ meta[Len(meta)].k = "ci"
  /\ \A j \in 1..Len(mid.d) : mid.d[j].leaf # None =>
        /\ ~meta[mid.d[j].leaf + 1].spent
        /\ Cardinality(LeafDiffs(mid.d, mid.d[j].leaf)) = 1
=============================================================================
