\* Case generator, quick-tier constants: every (n0 <= 8, U, k <= 5), 3 057 behaviours, ~10 s.
\* The harness writes this file itself (MinInit..MaxInit, MinAdd..MaxAdd per run; thorough: n0 0..11,
\* n0 = 12, n0 = 13 with k 0..2, n0 = 13 with k 3..5: 98 284 behaviours).
SPECIFICATION CSpec
CONSTANTS
  MaxH = 3
  MaxAdd = 5
  MaxLeaves = 13
  MinInit = 0
  MinAdd = 0
  MaxInit = 8
  MaxUndo = 1
INVARIANTS CountMatches RootsMatchNaive ProofsMatchNaive ProofsVerify
PROPERTIES RevertRestores
CHECK_DEADLOCK FALSE
