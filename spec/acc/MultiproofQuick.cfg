\* Multiproof cases, quick-tier span 1: every forest of 1..7 leaves x every multiplicity vector in {0,1,2}^n \ {0}
\* (3 279 cases, ~5 s).  The harness (harness/cmd/c18) writes this file itself, one per span:
\*   quick:    n 1..7 MaxDup 8;  n 8..10 MaxDup 1                                   (13 509 cases, ~20 s)
\*   thorough: n 1..8, n 9, n 10 with MaxDup 12 (all multiplicities); n 11, n 12 with MaxDup 1; n 13..15 with MaxDup 0   (187 885 cases)
\* Stand-alone: java -cp tla2tools.jar:CommunityModules-deps.jar tlc2.TLC -workers 8 -config MultiproofQuick.cfg Multiproof
SPECIFICATION Spec
CONSTANTS
  MinN = 1
  MaxN = 7
  MaxHt = 3
  MaxDup = 8
INVARIANTS LayoutFaithful ComputeIsDefinition SizeExact InferenceSound ExpandRestores RestoredVerify
CHECK_DEADLOCK FALSE
