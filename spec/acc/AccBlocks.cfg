\* -simulate: histories of Depth blocks/reverts (run with -depth >= 8 * Depth); forests up to 120 leaves.
\* The harness writes this file itself (Depth 12 quick, 14 thorough).
SPECIFICATION BSpec
CONSTANTS
  MaxH = 6
  MaxAdd = 5
  MaxLeaves = 120
  MaxInit = 0
  MaxUndo = 13
  Depth = 12
  MaxTx = 4
  MatDelay = 1
  EphH = 5
  Exhaustive = FALSE
  GenSC = {2, 3, 4}
  GenSF = {1, 2}
  GenFC = {0, 1}
INVARIANTS BCount BRoots BProofs BVerify BSane
PROPERTIES RevertRestores
CHECK_DEADLOCK FALSE
