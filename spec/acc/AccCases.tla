------------------------------ MODULE AccCases ------------------------------
(* Case generator (direction A, one implementation test per model transition).

   Every case  (n0, U, k)  -- an initial naive forest of n0 <= MaxInit leaves, a
   subset U of them updated and k <= MaxAdd leaves added by one block, then the
   block reverted -- is its own behaviour

        chosen --Build--> naive forest --Apply(U,k)--> applied --Revert--> reverted

   so that TLC's workers share the cases evenly (successors of ONE state are
   computed by one worker; choosing (U,k) in the initial state instead of in
   Next spreads the 2^n0 * (MaxAdd+1) successors of a forest over all workers).
   The Accumulator invariants are checked on every state.  The Revert step
   prints one line

        @@BEH [step("init", {}, n0), step("apply", U, k), step("revert", {}, 0)]

   (Accumulator!Step) with the expected accumulator and the expected proof of
   every leaf before the block, after it and after its revert.              *)
EXTENDS Accumulator, Json

CONSTANTS MinInit,     \* smallest initial forest  } let the harness split a tier into several
          MinAdd       \* fewest leaves added      } runs (TLC's output is capped per run)
VARIABLE plan          \* [ph, n0, U, k]
cvars == <<meta, acc, client, blk, undo, plan>>

CInit ==
  /\ \E n0 \in MinInit..MaxInit : \E U \in SUBSET (0..(n0 - 1)) : \E k \in MinAdd..MaxAdd :
        ~(U = {} /\ k = 0) /\ plan = [ph |-> 0, n0 |-> n0, U |-> U, k |-> k]
  /\ \E s \in {NaiveState(0)} : meta = s.meta /\ acc = s.acc /\ client = s.client
  /\ blk = NoProofs /\ undo = <<>>

CBuild ==
  /\ plan.ph = 0
  /\ \E s \in {NaiveState(plan.n0)} : meta' = s.meta /\ acc' = s.acc /\ client' = s.client
  /\ UNCHANGED <<blk, undo>>
  /\ plan' = [plan EXCEPT !.ph = 1]

CApply ==
  /\ plan.ph = 1
  /\ Apply(plan.U, plan.k)
  /\ plan' = [plan EXCEPT !.ph = 2]

CRevert ==
  /\ plan.ph = 2
  /\ Revert
  /\ plan' = [plan EXCEPT !.ph = 3]
  /\ PrintT("@@BEH " \o ToJson(<<Step("init", {}, plan.n0, Head(undo).meta, Head(undo).acc, Head(undo).client),
                                  Step("apply", plan.U, plan.k, meta, acc, client),
                                  Step("revert", {}, 0, meta', acc', client')>>))

CNext == CBuild \/ CApply \/ CRevert
CSpec == CInit /\ [][CNext]_cvars
=============================================================================
