------------------------------ MODULE AccHist -------------------------------
(* Longer histories for -simulate: apply / apply / revert / revert ... up to
   Depth steps from a naive forest of <= MaxInit leaves, at most MaxUndo
   un-reverted blocks at a time.  The updated subset of a block is drawn with
   RandomSubset (enumerating SUBSET of a 40-leaf forest is out of reach), its
   size and the number of added leaves are TLC's choice.  The behaviour is
   carried in hist (one Accumulator!Step per state) and printed when it is
   complete:    @@BEH [step, step, ...]     (run with -depth >= Depth + 3)                                     *)
EXTENDS Accumulator, Json, Randomization

CONSTANTS Depth,      \* steps per behaviour
          MaxUpd      \* largest updated subset
VARIABLE hist
hvars == <<meta, acc, client, blk, undo, hist>>

HInit == Init /\ hist = <<Step("init", {}, acc.n, meta, acc, client)>>

\* Two independent draws of (|U|, k, U) per state and one Revert: the simulator picks uniformly
\* among the successors, so about a third of the steps are reverts while the forest keeps growing.
HApply ==
  \E draw \in 1..2 :
    \E sz \in {RandomElement(0..(IF acc.n < MaxUpd THEN acc.n ELSE MaxUpd))} :
      \E k \in {RandomElement(0..MaxAdd)} :
        /\ ~(sz = 0 /\ k = 0)      \* (not a disjunction: TLC would explore both disjuncts)
        /\ \E U \in {RandomSubset(sz, 0..(acc.n - 1))} :
             /\ Apply(U, k)
             /\ hist' = Append(hist, Step("apply", U, k, meta', acc', client'))

HRevert == Revert /\ hist' = Append(hist, Step("revert", {}, 0, meta', acc', client'))

\* The complete behaviour is printed by an action (evaluated once, from the state the simulator
\* chose), not by an invariant (evaluated on every candidate successor).
HDone ==
  /\ Len(hist) = Depth + 1
  /\ PrintT("@@BEH " \o ToJson(hist))
  /\ hist' = <<>>
  /\ UNCHANGED vars

HNext == \/ Len(hist) \in 1..Depth /\ (HApply \/ HRevert)
         \/ HDone
HSpec == HInit /\ [][HNext]_hvars
=============================================================================
