\* Property C04, in-block (ephemeral) parents: every shape of the creating transaction within the bounds
\* (1..4 siacoin outputs, 0 or 2 siafund outputs, 0..2 contracts, 0..4 attestations): 120 states, ~3 s.
SPECIFICATION Spec
CONSTANTS
  MaxSC = 4
  MaxSF = 2
  MaxFC = 2
  MaxATT = 4
INVARIANTS Sound
CHECK_DEADLOCK FALSE
