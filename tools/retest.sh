#!/bin/bash
# retest.sh <seed-id> <check>: apply /verif/seeded/<id>/patch.diff in a scratch worktree of /repo HEAD and run the check against it
id=$1; chk=$2; wt=/tmp/wt-retest-$id
git -C /repo worktree add --detach $wt HEAD -q || exit 2
cd $wt; if ! git apply /verif/seeded/$id/patch.diff 2>/dev/null; then echo "$id: patch does not apply on HEAD"; git -C /repo worktree remove --force $wt; exit 0; fi
out=$(cd /verif && VERIF_REPO=$wt VERIF_OUT=/verif/.work/alt-out-$id timeout 1500 ./check $chk quick 2>&1); rc=$?
echo "$id: check $chk exit $rc"; echo "$out" | grep -E "^VIOLATION|violation detail" | cut -c1-220 | head -4
git -C /repo worktree remove --force $wt; rm -rf /verif/.work/alt-out-$id
