#!/usr/bin/env python3
"""Regenerates /verif/MANIFEST.json from the table below and validates it against the schema."""
import json, subprocess, sys
ALL = ["C%02d" % i for i in range(1, 21)]
# id -> (engine, technique, level text, level note, design ref)
LEDGER_NOTE = "Trusted: the harness's concretiser (abstract transaction -> real signed transaction, sealed block), the honest-store model for v1 supplements, the projection of the diff-fed element store, Ed25519/BLAKE2b as black boxes, TLC. Amounts in the bounded model are small naturals; behaviours are sampled by TLC -simulate (exhaustive only in the narrow MC configs)."
CLAIMED = {
 "C01": ("ledger", "TLC model checking of Ledger.tla (Conservation, SiafundsConst, PoolCoversClaims) + TLC-simulated behaviours replayed block by block on the real ValidateBlock/ApplyBlock with store-vs-spec comparison",
         "The ledger equation, constant siafunds and exact claims are invariants of the transcribed consensus state machine, model-checked on bounded v2/v1 families; every simulated behaviour (all templates, value defects, three network shapes, reverts) is replayed on real signed and sealed blocks and after every block every unspent element, contract and the siafund pool of the real store (fed only by update diffs) equals the specification's state.",
         LEDGER_NOTE, "DESIGN.md 4.1, 5/C01"),
 "C02": ("ledger", "TLC model checking of NoDoubleUse on Ledger.tla + replay of TLC-generated second-use placements (same transaction, same block either version, ephemeral, earlier block with maintained proof, after revert) on the real ValidateBlock with accepted control blocks; spent-ID multiset check on every accepted history; Positions.tla: the same parent at any two positions of a block (every pair of input positions of wide transactions, across two transactions, v1/v2/mixed, siacoins and siafunds) on real signed blocks",
         "NoDoubleUse is model-checked over the MidState mechanism; every generated doubled block is re-signed, re-sealed and must be rejected by the real code while its control is accepted; the multiset of spent IDs taken from real diffs has no repeats on any replayed history.",
         LEDGER_NOTE, "DESIGN.md 5/C02"),
 "C06": ("ledger", "TLC model checking of RevertInverse on Ledger.tla + TLC-simulated reorg schedules replayed on the real ApplyBlock/RevertBlock with snapshot, proof, diff-order and re-apply comparisons",
         "After every real RevertBlock of every generated reorg schedule: store == pre-apply snapshot == spec state, revert diffs == reversed apply diffs, every stored element verifies against the parent accumulator, re-apply is byte-identical. Found and fixed the v1 revise+prove defect.",
         LEDGER_NOTE, "DESIGN.md 5/C06"),
 "C08": ("ledger", "Boundary.tla (where each height/time rule flips) enumerated by TLC and executed case by case on real chains at bound-2..bound+2 over a configuration lattice (incl. empty files and contracts formed in the block that proves them) + Ledger.tla timing-defect behaviours replayed on the real ValidateBlock",
         "Every rule of the property (maturity, v1 unlock-condition and signature timelocks, v2 above/after/uc policies with parent height and strict median time, v1 window and v2 proof/expiration rules for formation, revision, proof, expiration, v1/v2 eras) is stated in Boundary.tla; every (rule, configuration, bound, offset) case is built on a real chain and the real verdict compared: rejected before the bound, accepted at it. Timing defects in simulated ledger behaviours add the in-block combinations (found and fixed the revised-window proof defect).",
         LEDGER_NOTE, "DESIGN.md 5/C08"),
 "C03": ("ledger", "Authorization.tla (coverage relation: which required signature binds which content; verdict table for every shape x single-point tampering) emitted by TLC and executed case by case on real chains with real keys, with re-signed controls; authorisation defects inside TLC-simulated Ledger behaviours",
         "For 24 shapes of signed transactions (v1 whole/partial/multisig/unknown-algorithm/siafund/revision/Foundation update; v2 public-key, unlock-conditions, threshold, hash-lock, height/time policies, siafund, contract formation, revision, renewal, attestation, Foundation update) every tampering of covered content, witnesses, claimed keys or policy gets the verdict the property demands on the real ValidateBlock; the untampered block and the re-signed control are accepted. Found the stale-keys renewal defect (fixed) and the unbound siafund claim address (known).",
         LEDGER_NOTE + " The byte-level signature pre-images are C12's subject.", "DESIGN.md 5/C03"),
 "C07": ("ledger", "TLC model checking of RevisionStep/NoDoubleUse on contract configurations of Ledger.tla + simulated and exhaustively enumerated contract life-cycles replayed on the real code with payout comparison; StorageProof.tla (tree, honest and dishonest proofs, transcribed verifiers) with every (leaves, challenged leaf, era/version, proof kind) executed on real chains; transactions with several proofs (TxVerdict: every ordered list of file sizes, honest or with one altered proof, three eras); proofs built by rhp/v2 for files of whole sectors; challenge index validated by TLC over BigNat",
         "Payout outputs of every resolved contract equal those of its latest accepted revision, once; forbidden revisions, dishonest proofs and second resolutions are rejected; honest storage proofs are accepted in every era except the documented middle-era quirk, proofs of another leaf / altered data / wrong length are rejected; the challenged leaf is seed mod leaves. Found and fixed the v1 short-proof soundness defect.",
         LEDGER_NOTE, "DESIGN.md 4.6, 5/C07"),
 "C04": ("acc", "Membership.tla (Member(acc, e) <=> e is exactly a live leaf with its own path; probe catalogue over bounded forests incl. reverted-branch and never-created elements) model-checked; every TLC probe and reflection-derived field mutation asked of the real code through the shim, ValidateTransactionElements, ValidateV2Transaction, ValidateBlock supplements (five block forms, placements beside the genuine copy) and used parents, in-block parents (InBlock.tla: the shared id->index map of MidState) and history proofs of empty and non-empty files, on synthetic forests and on real ledger chains; TxnSound: the probe as first, middle and last parent of a multi-parent transaction and before/after genuine resolutions",
         "Only the genuine live element with exactly its field values, position and proof is accepted; every single-field mutation (enumerated by reflection over the element structs), foreign proof or position, spent, reverted-branch or never-created element is rejected, through every public door, with controls that show the rejection is due to the element.",
         "Trusted: collision-free hashing, the verif export shim (forwards only), hterm, TLC. Attestation elements only through the shim.", "DESIGN.md 4.2, 5/C04"),
 "C05": ("acc", "TLC model checking of Accumulator.tla (algorithm transcription = naive forest on all bounded forests, apply/revert) + one implementation test per TLC transition replayed through the real accumulator (export shim) with symbolic terms evaluated by the real hashes + TLC -simulate histories + real chains through the public API + AccBlocks.tla (which leaves a block hands the accumulator, in which order and with which flags; ephemeral spends, same-block contract life-cycles) replayed as real signed blocks",
         "Roots, leaf count and every tracked proof (old, updated, added, spent) equal the naive Merkle forest after every apply and revert for all forests within the bound; every TLC transition is replayed on real elements of all six kinds; beyond the bound the spec's definitions are evaluated over real leaf hashes for sizes to 2^12 and apply/revert interleavings to depth 12; public-API chains check ForEachTreeNode and proof maintenance.",
         "Trusted: collision-free hashing, hterm term evaluator, the verif export shim (forwards only), TLC.", "DESIGN.md 4.2, 5/C05"),
 "C12": ("wire", "Semantics.tla (pre-image of every ID and signature hash in the Wire combinator language, written from the rule 'everything that has an effect, nothing that is a witness') evaluated by TLC for recorded real values and hashed by the harness against ID()/SigHash(); effect/witness table exported by TLC drives reflection-based single-leaf mutation; SemanticsDistinct model-checked; era/purpose replay and block-content mutation on real chains; SemanticsPure.tla: the hash entry points as users of hasher pools, invariant Pure under call histories with aborted calls, replayed on the real code against a fresh-process baseline",
         "BLAKE2b of the spec's pre-image equals every ID, derived ID, commitment, header/block ID and signature hash in every era for generated and real transactions and blocks; IDs change iff an effect-bearing leaf changes; pre-images of distinct derivations differ; signatures are refused across eras and purposes; every content mutation of a block is refused or changes its ID. Found F2 (known, needs a hard fork).",
         "Trusted: wirebridge reflection walker, x/crypto BLAKE2b as the hash evaluator, TLC.", "DESIGN.md 4.8, 5/C12"),
 "C13": ("pow", "Difficulty.tla relational clauses; TLC-enumerated timestamp-choice skeletons executed on the real ApplyHeader/ApplyBlock; every recorded step validated by TLC (DifficultyTrace.tla over BigNat); DifficultyMag.tla: constructed states in every era at magnitudes where difficulty, total work and the clamp bounds cross every 64-bit limb boundary (clause WorkSum); networks whose hard forks sit at heights 0 and 1 (DifficultySkelZero), nonce factor taken from the scenario",
         "Every recorded header application satisfies the era's clamp, non-zero work, floored-inverse relations, monotone work, header-only = full-block state and the header acceptance rule with verdicts for honest and defective headers; skeletons cross every era boundary on a lattice of network shapes.",
         "Trusted: BigNat, ancestor timestamps supplied as a node would, difficulty < 2^200. Relational blind spots: a formula change that stays inside the clamp.", "DESIGN.md 4.3, 5/C13"),
 "C17": ("rhp", "Contracts.tla skeletons enumerated/simulated by TLC, executed on the real RHP4 constructors; results validated by TLC (ContractsTrace.tla over BigNat: post-conditions + transcribed consensus rules) and submitted to the real ValidateV2Transaction; design model ContractsDesign.tla model-checked; exhaustive size sequences (append/free/refresh) with CapacityMonotone; Admission.tla (what a host must refuse per RPC) compared with the real Validate methods, every admitted request built and submitted to consensus",
         "Every constructor result satisfies the relational post-conditions (totals, exact usage charge, risked collateral, missed host value, rollover split and cap, cost equation) and the TLA+ transcription of consensus validity, and is accepted by the real validator on a real chain; short funding fails cleanly; v2/v3 tax inversion checked.",
         "Trusted: parameter generator filtered by the real Validate methods, BigNat, TLC. Magnitudes below 2^110.", "DESIGN.md 4.7, 5/C17"),
 "C09": ("pure", "Purity.tla memo-function specification model-checked (honest and dishonest implementations); interleaved begin/end logs of concurrent real calls (1/2/8/32 goroutines under the race detector, on the same memory and on decoded / shared / deep-copied / JSON copies) validated by TLC (PurityTrace.tla); reflection probes of every copy and decode result (shared backing arrays and capacity overlap); Mutate layer: the same content obtained six ways updated in place and by append",
         "Every recorded call leaves its inputs' deep digest unchanged and returns the result recorded for the same content key, across goroutine counts and copies; the per-transaction path gives the block's verdict; Copy/DeepCopy results share no slice memory with their originals. Found and fixed the shallow element Copy methods.",
         "Trusted: the Go race detector for race detection (the model only judges the logs), the harness's reflection digest, TLC. Pointer/interface sharing of DeepCopy is reported as information.", "DESIGN.md 4.10, 5/C09"),
 "C10": ("wire", "Malformed.tla (annotated wire interpreter, asserted equal to Wire!Enc): TLC enumerates structural corruptions of valid encodings of every wire shape (cut points, inflated/deflated length prefixes, counts, bools, tags, currencies, policy depth/arity, multiproof hints, outline kinds) and of JSON/text forms; Extremes.tla enumerates structure-aware mutations of valid blocks (currency extremes alone, in pairs, as pre-check complements and uint64 wrap pairs, proof lengths, covered-field patterns, id confusion, duplicated/missing parents, decodable nil values, life-cycle extremes); every case is executed on the real decoders (worker processes) and on ValidateHeader/Orphan/Transaction/V2Transaction/Block, ApplyBlock and RevertBlock over TLC-generated ledger behaviours; exhaustive families of honest blocks (every Ledger.tla behaviour of small families incl. empty v2 contracts and legacy ephemeral siafunds) must pass without panic",
         "Every decode/unmarshal case returns a value or an error without panic, without outliving a 120 s confirmation deadline and without holding more than 64 x input + 1 MiB of heap (peak, measured alone in a fresh process); every mutated block either fails validation with an error or is applied and reverted without panic. TLC announces the case count per shape and the harness must derive the same number. Found F3 F4 F11 F12 F19-F23 F26 (fixed) and F24 (known).",
         "Trusted: wirebridge registry of wire types, the Go runtime's MemStats/heap sampling for the peak-memory verdict, wall-clock deadlines (5 s suspect, 120 s verdict) for non-termination, TLC. Unstructured random bytes are not generated. Quadratic-time but terminating inputs are listed as observations (slow_cases), not verdicts.", "DESIGN.md 4.8, 5/C10, 11.3"),
 "C11": ("wire", "Wire.tla schema interpreter: TLC validates bytes = Enc(schema, value) for recorded real encodings of all 177 wire types (direction B) and enumerates small shapes whose bytes the real decoders must decode and re-encode identically (direction A); round trip, canonicity, single-field influence and truncation decided on the real code; PolicyLimits.tla: policy shapes at the codec's documented limits (nesting depth 31..34, 255 children, 1025 thresholds) must be accepted up to the limit and refused beyond",
         "The byte layout of every registered wire type equals the independently written schema; decode(encode(v)) = v up to the explicit normalisation table; every transmitted leaf field changes the bytes; every proper prefix fails to decode; bool bytes other than 0/1 are rejected.",
         "Trusted: wirebridge reflection walker (schema and Go struct walked in lock-step), TLC. Unexported rhp2/rhp3 response wrappers not covered.", "DESIGN.md 4.8, 5/C11"),
 "C14": ("policy", "TLC check VerifyAlg = Meaning on the bounded policy space (Policy.tla); every TLC-evaluated (policy, witnesses, context) row replayed on the real SpendPolicy.Verify with real keys/signatures/preimages and through ValidateV2Transaction; random deep trees validated by TLC trace (PolicyTrace.tla); numeric parameters at the edges of their machine types through value classes BIG/NEG whose members are all instantiated on the real code",
         "Transcribed verification walk equals the declarative meaning on millions of bounded cases in TLC; every expected verdict comes from TLC and is compared with the real Verify; address invariance under opaque substitution and complexity limits included.",
         "Trusted: harness key/signature generation, TLC. ed25519 unlock keys of length != 32 outside the model.", "DESIGN.md 4.4, 5/C14"),
 "C15": ("currency",
         "TLC exhaustive check of the limb-width-parametric transcription (Currency.tla, all operand pairs at W<=4/5) + TLC trace validation (CurrencyTrace.tla over BigNat) of recorded executions of the real 128-bit code and its text forms",
         "The carry/overflow structure of every Currency algorithm is model-checked exact for all operands at small limb widths; every recorded execution of the real code (boundary x boundary, structured, random, constructed quotient cases; all printed forms; reject catalogue of literals) is accepted by the exact-arithmetic trace specification.",
         "Trusted: BigNat.tla (cross-checked against TLC integers on every run), the harness's lexing of printed forms into digit sequences, TLC. Real 64-bit code is sampled, not exhausted.",
         "DESIGN.md 4.5, 5/C15"),
 "C16": ("merkle", "TLC check of RHPMerkle.tla (definition = transcription, completeness, corruption catalogue) on bounded trees; every TLC case replayed on the real builders/verifiers with symbolic terms evaluated by the real hash primitives, on both CPU paths; MerkleStream.tla: the streaming range verifier transcribed, every honest range against every claimed range with cut and over-long streams, replayed at the start, middle and end of a real sector",
         "Range, diff/free, append and sector-roots proofs: builder output equals the spec's term list, verifiers accept honest proofs with the right roots and reject every catalogued corruption given the true count; sector-level roots/proofs and streaming verifiers compared against the plain definition; AVX2 and generic paths agree. Found and fixed the free-sectors altered-index defect.",
         "Trusted: collision-free hashing, the harness's term evaluator (cross-checked against expanded TLC terms each run), CPU path toggled from outside (GODEBUG).", "DESIGN.md 4.6, 5/C16"),
 "C18": ("acc", "Multiproof.tla (definition + transcription of compute/expand/size and the numLeaves inference) and Outline.tla model-checked; every TLC case replayed on real accumulators and real V2TransactionsMultiproof encode/decode; real ledger blocks round-tripped; outlines of real and synthetic blocks completed against TLC-enumerated pool classes",
         "The multiproof of every bounded leaf multiset equals the spec's list, decoding restores every proof bit for bit (duplicates, chain-index leaves, ephemeral parents), block ID / commitment / validity are unchanged by the round trip; an outline with any omitted subset has the block's ID, completes to exactly the block or reports exactly the missing hashes, and its codec is the identity.",
         "Trusted: collision-free hashing, hterm term evaluator, the verif export shims (forwards only), TLC.", "DESIGN.md 4.2, 4.9, 5/C18"),
 "C19": ("net", "TLC model checking of Session/Handshake/KeyExchange/Framing specs; every TLC fault schedule replayed by an in-memory man-in-the-middle between real RHP2/RHP3/gateway endpoints; framing lines of real maximal/over-limit messages validated by TLC (FramingTrace.tla); FrameSizes.tla (RHP2 padding and limits as lengths, every boundary size through all read paths); Reuse.tla (buffer-reusing decoders and dirty receivers); Exchanges.tla / Cuts.tla (whole RPC exchanges with a cut at every frame); Calls.tla (Transport.Call / Stream.Call with their documented response limit, every size up to it)",
         "Delivered sequence is an unaltered prefix, faults are detected and close the session, handshakes succeed iff genesis matches and unique IDs differ, maximal valid messages of 93 object types are admitted and over-limit ones refused within the limit, error responses surface as that error.",
         "Trusted: mux authentication (external), deadlines classify blocked reads, limits observed through behaviour (no export hook).", "DESIGN.md 4.9, 5/C19"),
 "C20": ("text", "Text.tla (printed forms, accepted languages, normalisation) checked by TLC trace validation of real text/JSON round trips; TLC-generated corrupted identifiers replayed on the real parsers; JSON round-tripped updates compared on a real chain",
         "Text of identifier/policy types equals the spec's printed form and parses back; big JSON types round-trip under the explicit normalisation table; every corrupted address/identifier is rejected or returns the same value; updates through JSON refresh proofs identically. Found and fixed five defects.",
         "Trusted: reflection value generator, checksum bytes recomputed with the real hash and passed as data, TLC.", "DESIGN.md 5/C20"),
}
NA_REASON = "check still being built in this round (DESIGN.md section 9); it will be claimed once it is quiet on the unchanged tree"
def main():
    src = subprocess.run(["git", "-C", "/repo", "log", "--format=%H %s"], capture_output=True, text=True).stdout.splitlines()
    hooks = [l.split()[0] for l in src if " verif:" in l or " verif hook" in l]
    m = {
      "version": 1,
      "setup_cmd": "./setup.sh",
      "hooks": {
        "guard": "verif",
        "enable": "go build -tags verif (the harness module replaces go.sia.tech/core with /repo, so every check rebuilds from /repo's working tree)",
        "baseline_off_cmd": "cd /repo && GOFLAGS=-mod=mod GOPROXY=off GOSUMDB=off GOTOOLCHAIN=local go1.26 test -json -vet=off -count=1 -timeout 25m ./...",
        "source_commits": hooks,
        "add_only": True,
      },
      "engines": [],
      "checks": [],
      "notes": "Model-based verification with explicit TLA+ specifications (spec/) bound to the code by behaviour replay and trace validation (harness/). See DESIGN.md.",
      "not_applicable": [],
    }
    engines = {}
    for pid in ALL:
        if pid in CLAIMED:
            eng, tech, text, note, ref = CLAIMED[pid]
            engines.setdefault(eng, []).append(pid)
            m["checks"].append({
              "property_id": pid,
              "quick_cmd": "./check %s quick" % pid,
              "thorough_cmd": "./check %s thorough" % pid,
              "evidence_file": "/verif/evidence/%s.json" % pid,
              "replay_cmd_template": "./check %s --replay {path}" % pid,
              "engine": eng,
              "level_claimed": {"category": "model_checking", "text": text, "design_ref": ref},
              "level_note": note,
              "technique": tech,
            })
        else:
            m["not_applicable"].append({"property_id": pid, "reason": NA.get(pid, NA_REASON)})
    for e, ps in engines.items():
        m["engines"].append({"name": e, "path": "/verif/spec/%s + /verif/harness" % e, "serves_properties": ps,
                             "kind_free_text": "TLA+ specification checked by TLC, bound to the Go code by the harness"})
    json.dump(m, open("/verif/MANIFEST.json", "w"), indent=1)
    try:
        import jsonschema
        jsonschema.validate(m, json.load(open("/root/.vp/MANIFEST.schema.json")))
        print("MANIFEST.json valid;", len(m["checks"]), "checks")
    except ImportError:
        print("jsonschema not available; not validated")
NA = {}
if __name__ == "__main__":
    main()
