#!/usr/bin/env python3
"""Regenerates /verif/MANIFEST.json from the table below and validates it against the schema."""
import json, subprocess, sys
ALL = ["C%02d" % i for i in range(1, 21)]
# id -> (engine, technique, level text, level note, design ref)
CLAIMED = {
 "C15": ("currency",
         "TLC exhaustive check of the limb-width-parametric transcription (Currency.tla, all operand pairs at W<=4/5) + TLC trace validation (CurrencyTrace.tla over BigNat) of recorded executions of the real 128-bit code and its text forms",
         "The carry/overflow structure of every Currency algorithm is model-checked exact for all operands at small limb widths; every recorded execution of the real code (boundary x boundary, structured, random, constructed quotient cases; all printed forms; reject catalogue of literals) is accepted by the exact-arithmetic trace specification. Right level: the property is about one pure algebra, so exhaustive small-width checking of the structure plus trace validation of the real width is as deep as this family reaches.",
         "Trusted: BigNat.tla (cross-checked against TLC integers on every run), the harness's lexing of printed forms into digit sequences, TLC. Real 64-bit code is sampled, not exhausted.",
         "DESIGN.md 4.5, 5/C15"),
}
NA_REASON = "check not built yet (build in progress, see DESIGN.md section 9 for the order)"
def main():
    src = subprocess.run(["git", "-C", "/repo", "log", "--format=%H %s"], capture_output=True, text=True).stdout.splitlines()
    hooks = [l.split()[0] for l in src if " verif:" in l or " verif hook" in l]
    m = {
      "version": 1,
      "setup_cmd": "./setup.sh",
      "hooks": {
        "guard": "verif",
        "enable": "go build -tags verif (the harness module replaces go.sia.tech/core with /repo, so every check rebuilds from /repo's working tree)",
        "baseline_off_cmd": "cd /repo && GOFLAGS=-mod=mod GOPROXY=off GOSUMDB=off GOTOOLCHAIN=local go1.26 test -json -vet=off -count=1 -timeout 25m ./...",
        "source_commits": hooks,
        "add_only": True,
      },
      "engines": [],
      "checks": [],
      "notes": "Model-based verification with explicit TLA+ specifications (spec/) bound to the code by behaviour replay and trace validation (harness/). See DESIGN.md.",
      "not_applicable": [],
    }
    engines = {}
    for pid in ALL:
        if pid in CLAIMED:
            eng, tech, text, note, ref = CLAIMED[pid]
            engines.setdefault(eng, []).append(pid)
            m["checks"].append({
              "property_id": pid,
              "quick_cmd": "./check %s quick" % pid,
              "thorough_cmd": "./check %s thorough" % pid,
              "evidence_file": "/verif/evidence/%s.json" % pid,
              "replay_cmd_template": "./check %s --replay {path}" % pid,
              "engine": eng,
              "level_claimed": {"category": "model_checking", "text": text, "design_ref": ref},
              "level_note": note,
              "technique": tech,
            })
        else:
            m["not_applicable"].append({"property_id": pid, "reason": NA.get(pid, NA_REASON)})
    for e, ps in engines.items():
        m["engines"].append({"name": e, "path": "/verif/spec/%s + /verif/harness" % e, "serves_properties": ps,
                             "kind_free_text": "TLA+ specification checked by TLC, bound to the Go code by the harness"})
    json.dump(m, open("/verif/MANIFEST.json", "w"), indent=1)
    try:
        import jsonschema
        jsonschema.validate(m, json.load(open("/root/.vp/MANIFEST.schema.json")))
        print("MANIFEST.json valid;", len(m["checks"]), "checks")
    except ImportError:
        print("jsonschema not available; not validated")
NA = {}
if __name__ == "__main__":
    main()
