#!/bin/bash
# tools/seedcheck.sh <Cnn> <k> [check-to-run ...]
# Confirms a seeded change delivered in /tmp/seed-<Cnn>/out/<k>/ (compiles, existing suite passes, demo fails with it and
# passes without), runs the given checks (default: the property's own) against it, and files it under /verif/seeded/.
set -u
P="$1"; K="$2"; shift 2
CHECKS="${*:-${P%[a-z]}}"
WT="/tmp/seed-$P"; OUT="$WT/out/$K"; DEST="/verif/seeded/$P-$K"
export GOFLAGS=-mod=mod GOPROXY=off GOSUMDB=off GOTOOLCHAIN=local
[ -f "$OUT/patch.diff" ] || { echo "no patch at $OUT"; exit 2; }
PKG=$(python3 -c "import json;print(json.load(open('$OUT/meta.json'))['package_dir'])")
cd "$WT" && git checkout -q -- . && git clean -fdq -e out
mkdir -p "$DEST"; cp "$OUT/patch.diff" "$OUT/meta.json" "$DEST/"; cp "$OUT"/zz_seed_demo_test.go "$DEST/" 2>/dev/null
res="$DEST/confirm.txt"; : > "$res"
cp "$OUT/zz_seed_demo_test.go" "$WT/$PKG/"
if timeout 600 go1.26 test -count=1 -run TestSeedDemo "./$PKG/" >/dev/null 2>&1; then echo "demo without change: PASS" >> "$res"; else echo "demo without change: FAIL (unexpected)" >> "$res"; fi
git apply "$OUT/patch.diff" || { echo "patch does not apply" >> "$res"; cat "$res"; exit 2; }
if timeout 600 go1.26 test -count=1 -run TestSeedDemo "./$PKG/" >/dev/null 2>&1; then echo "demo with change: PASS (unexpected)" >> "$res"; else echo "demo with change: FAIL (as intended)" >> "$res"; fi
rm -f "$WT/$PKG/zz_seed_demo_test.go"
if timeout 900 go1.26 build ./... 2>/dev/null && timeout 1200 go1.26 test -count=1 -timeout 15m $(go1.26 list ./... | grep -v '/out/') >/dev/null 2>&1; then echo "existing suite with change: PASS" >> "$res"; else echo "existing suite with change: FAIL" >> "$res"; fi
for C in $CHECKS; do
  out=$(cd /verif && VERIF_REPO="$WT" VERIF_OUT="/verif/.work/alt-out-$P-$K" timeout 1500 ./check "$C" quick 2>&1); rc=$?
  echo "check $C quick against the change: exit $rc" >> "$res"
  echo "$out" | grep -E "^VIOLATION|^KNOWN-FINDING|^INFRA|violation detail" | cut -c1-300 | head -8 >> "$res"
done
git checkout -q -- . && git clean -fdq -e out
rm -rf "/verif/.work/alt-out-$P-$K"
cat "$res"
